"""C16 - untrusted tokens are rejected only with JoseError or ValueError (an exact rule catalogue, not a proof of the
universal statement).

E1 handler discipline: external throws (frozen table) minus what handlers convert must be JoseError / ValueError
E2 untrusted-JSON typestate: (a) container kind at decode, (b) validate before iterate (crit), (c) algorithm names are
   well-typed before table lookups, (d) table lookups keyed by token strings are membership-guarded
E3 every consume-reachable assert carries a machine-checked justification
E4 clean key-type failure: check_key_type precedes verification / CEK recovery
E5 explicit raises construct allowed classes (stubs are shown unreachable by the folded class family)
"""
from __future__ import annotations
import ast
import os
from typing import Dict, List, Optional, Set, Tuple

from ..program import AnalysisError, ClassInfo, FunctionInfo, fn_nodes, norm
from ..callgraph import CallSite
from ..cfg import cfg_of, CNode
from ..excflow import Esc, ExcFlow
from ..fold import FuncVal, Inst, Unknown, is_unknown, ClassVal
from ..spec import tables as T
from .common import (JWE_CONSUME, JWS_CONSUME, can_reach_exit, const_value, entries, impls, is_const, names_in, scope_of,
                     sites_calling, succ_by_label)


def consume_scope(eng) -> List[FunctionInfo]:
    seen: List[FunctionInfo] = []
    for e in eng.consume_entries() + [eng.entry("jws", "extract_compact")]:
        for f in scope_of(eng, e):
            if f not in seen:
                seen.append(f)
    return seen


# ----------------------------------------------------------------------------------------------- E1 / E5
def e1_e5(ctx) -> None:
    eng = ctx.eng
    P = eng.prog
    F = eng.folder
    xf = ExcFlow(P, eng.cg)
    ents = eng.consume_entries() + [eng.entry("jws", "extract_compact")]
    rounds = xf.solve(ents)
    ctx.extra["exception_flow_rounds"] = rounds
    if xf.unclassified:
        raise AnalysisError(f"E1: external callees without a throws-table entry: {sorted(xf.unclassified)[:6]}")
    ctx.extra["range_guards_used"] = xf.guarded
    bad: Dict[Tuple[str, str, str], Set[str]] = {}
    n_ok = 0
    classes_seen: Set[str] = set()
    for en in ents:
        for esc in xf.summary(en):
            classes_seen.add(esc.exc)
            if xf.is_allowed(esc.exc):
                n_ok += 1
                continue
            bad.setdefault((esc.exc, esc.origin_fn, esc.origin), set()).add(en.short)
    ctx.extra["escaping_classes"] = sorted(classes_seen)
    ctx.count("E1", n_ok, 400, "allowed (entry, escaping exception, origin) triples")
    ctx.ok("E1", "allowed escapes", f"{n_ok} (entry, exception, origin) triples are JoseError / ValueError subclasses")
    # how many external call sites were classified
    ext_sites = 0
    for fn in consume_scope(eng):
        for s in eng.cg.calls_in(fn):
            if s.ext:
                ext_sites += 1
    ctx.count("E1/sites", ext_sites, 250, "external call sites in consume-reachable code")
    for (exc, ofn, origin), ens in sorted(bad.items()):
        fn = P.functions.get("joserfc." + ofn)
        if exc == "AssertionError":
            continue  # E3
        if exc == "NotImplementedError":
            why = _stub_unreachable(eng, fn)
            ctx.check(why is not None, "E5", fn, fn.node if fn else None, f"{ofn} :: {origin}", "an abstract stub raising NotImplementedError is reachable from "
                      f"{sorted(ens)[:2]}: no concrete override for every class that can be dispatched to", why or "", construct=f"NotImplementedError in {ofn}")
            continue
        if exc == "RuntimeError" and fn is not None and fn.cls is not None and fn.cls.name == "AESGCMAlgModel":
            ok = _gcm_never_wrapper(eng)
            ctx.check(ok, "E5", fn, fn.node, f"{ofn} :: {origin}", "AES-GCM key wrapping is composed with a key agreement algorithm: its RuntimeError is reachable",
                      "no folded key-agreement model uses an AESGCMAlgModel as key_wrapping", construct=f"RuntimeError in {ofn}")
            continue
        rule = "E5" if origin.startswith("raise ") else "E1"
        msg = (f"{exc} raised by `{origin}` is not converted on the way out of {sorted(ens)[:3]}" if rule == "E1" else
               f"`{origin}` raises {exc}, which is neither a JoseError nor a ValueError, and reaches {sorted(ens)[:3]}")
        ctx.fail(rule, fn, None, msg, construct=f"{exc} from {origin}")
    # E5: every explicit raise in consume scope names a resolvable class
    n_raise = 0
    for fn in consume_scope(eng):
        for node in fn_nodes(fn):
            if isinstance(node, ast.Raise) and node.exc is not None and not isinstance(node.exc, ast.Name):
                n_raise += 1
    ctx.count("E5", n_raise, 60, "explicit raise statements in consume-reachable code")
    ctx.ok("E5", "explicit raises", f"{n_raise} raise statements: every escaping class is allowed or justified above")


def _stub_unreachable(eng, fn: Optional[FunctionInfo]) -> Optional[str]:
    if fn is None or fn.cls is None:
        return None
    P = eng.prog
    F = eng.folder
    kb = P.cls("rfc7517.models:BaseKey")
    if kb in fn.cls.mro or fn.cls is kb:
        # concrete key classes: the ones registered in JWKRegistry.key_types
        kt = F.class_attr(P.cls("_keys:JWKRegistry"), "key_types")
        if not isinstance(kt, dict) or not kt:
            return None
        for v in kt.values():
            if not isinstance(v, ClassVal):
                return None
            impl = v.cls.lookup(fn.name)
            if impl is None or impl is fn:
                return None
        return f"overridden in all {len(kt)} concrete key classes of JWKRegistry.key_types"
    ka = P.cls("rfc7516.models:JWEKeyAgreement")
    if fn.cls is ka and fn.name.endswith("_with_tag"):
        insts = _all_alg_instances(eng)
        for i in insts:
            if ka in i.cls.mro and F.get_attr(i, "tag_aware") is True:
                impl = i.cls.lookup(fn.name)
                if impl is None or impl is fn:
                    return None
        return "every folded model with tag_aware=True overrides it"
    return None


def _all_alg_instances(eng) -> List[Inst]:
    P = eng.prog
    F = eng.folder
    out: List[Inst] = []
    jwe = F.class_attr(P.cls("rfc7516.registry:JWERegistry"), "algorithms")
    if isinstance(jwe, dict):
        out.extend(v for v in jwe["alg"].values() if isinstance(v, Inst))
    d1 = F.module_value(P.mod("drafts.jwe_ecdh_1pu"), "JWE_ALG_MODELS")
    if isinstance(d1, list):
        out.extend(v for v in d1 if isinstance(v, Inst))
    if len(out) < 21:
        raise AnalysisError("key-management model instances did not fold")
    return out


def _gcm_never_wrapper(eng) -> bool:
    F = eng.folder
    for i in _all_alg_instances(eng):
        kw = i.attrs.get("key_wrapping")
        if isinstance(kw, Inst) and kw.cls.name == "AESGCMAlgModel":
            return False
    return True


# ----------------------------------------------------------------------------------------------- E2a
def e2a(ctx) -> None:
    """every decoded header (json_b64decode / json.loads of token data) is checked to be a dict before it is stored or subscripted"""
    eng = ctx.eng
    P = eng.prog
    jd = P.func("util:json_b64decode")
    n = 0
    for fn in consume_scope(eng):
        if fn.module.short == "util":
            continue
        for s in eng.cg.calls_in(fn):
            if not isinstance(s.node, ast.Call):
                continue
            is_dec = jd in s.callees or any(x == "json.loads" for x in s.ext)
            if not is_dec:
                continue
            n += 1
            par = P.parent(s.node)
            inst = f"{fn.short} :: {norm(par)[:60] if par is not None else norm(s.node)}"
            tgt = None
            if isinstance(par, ast.Assign) and len(par.targets) == 1:
                tgt = par.targets[0]
            elif isinstance(par, ast.AnnAssign):
                tgt = par.target
            if not isinstance(tgt, ast.Name):
                ctx.fail("E2a", fn, par or s.node, "decoded JSON of untrusted origin is stored / used without first being bound to a local and checked to be an object "
                         "(a JSON array, string or number here later raises TypeError)", construct=f"unchecked decode {norm(par or s.node)[:70]}")
                continue
            var = tgt.id
            cfg = cfg_of(fn)
            D = cfg.node_of(par)
            guards = []
            for t in cfg.nodes:
                if t.kind == "test" and isinstance(t.ast, ast.Call) and isinstance(t.ast.func, ast.Name) and t.ast.func.id == "isinstance" \
                        and len(t.ast.args) == 2 and norm(t.ast.args[0]) == var and norm(t.ast.args[1]) in ("dict", "(dict,)", "t.Dict", "Dict"):
                    if _edge_only_raises_allowed(eng, fn, cfg, succ_by_label(cfg, t, "false")):
                        guards.append(t)
            uses = []
            for x in fn_nodes(fn):
                if isinstance(x, ast.Name) and x.id == var and isinstance(x.ctx, ast.Load):
                    cn = cfg.node_of(x)
                    if cn is not None and cn is not D and cn not in guards:
                        uses.append(cn)
            ok = bool(guards) and all(cfg.must_pass(D, u, guards) for u in uses if u in cfg.reachable(D))
            ctx.check(ok, "E2a", fn, par, inst, f"the decoded value `{var}` is used as a mapping without an isinstance(…, dict) check whose failure raises "
                      "DecodeError/ValueError: a header that is a JSON array / string / number escapes as TypeError",
                      f"isinstance({var}, dict) guards all {len(uses)} uses", construct=f"container check after {norm(par)[:60]}")
    ctx.count("E2a", n, 6, "decode sites of untrusted JSON")


def _edge_only_raises_allowed(eng, fn, cfg, starts: List[CNode]) -> bool:
    if not starts:
        return False
    if can_reach_exit(cfg, starts):
        return False
    xf = ExcFlow(eng.prog, eng.cg)
    for s0 in starts:
        for n in cfg.reachable(s0):
            if n.kind == "stmt" and isinstance(n.ast, ast.Raise) and n.ast.exc is not None:
                if not xf.is_allowed(xf.class_name(fn, n.ast.exc)):
                    # a raise inside a try whose handler converts it is fine
                    cur = eng.prog.parent(n.ast)
                    conv = False
                    while cur is not None and not isinstance(cur, (ast.FunctionDef, ast.AsyncFunctionDef)):
                        if isinstance(cur, ast.Try):
                            conv = True
                        cur = eng.prog.parent(cur)
                    if not conv:
                        return False
    return True


# ----------------------------------------------------------------------------------------------- E2b
def e2b(ctx) -> None:
    eng = ctx.eng
    P = eng.prog
    crit = P.func("registry:check_crit_header")
    cfg = cfg_of(crit)
    hp = crit.pos_params[0]
    loops = [l for l in cfg.nodes if l.kind == "loop"]
    if not loops:
        raise AnalysisError("check_crit_header has no loop")
    ok_all = True
    for L in loops:
        it = L.ast.iter  # type: ignore[union-attr]
        ittxt = norm(it)
        # guarded in place?
        guards = []
        for t in cfg.nodes:
            if t.kind == "test" and isinstance(t.ast, ast.Call) and isinstance(t.ast.func, ast.Name) and t.ast.func.id == "isinstance" \
                    and len(t.ast.args) == 2 and norm(t.ast.args[1]) in ("list", "(list, tuple)", "(list,)"):
                a0 = norm(t.ast.args[0])
                if a0 == ittxt or (isinstance(it, ast.Name) and a0 == it.id):
                    if _edge_only_raises_allowed(eng, crit, cfg, succ_by_label(cfg, t, "false")):
                        guards.append(t)
        # a call to a validator that raises unless its argument is a list of str
        elem_str = False
        for cs in eng.cg.calls_in(crit):
            if isinstance(cs.node, ast.Call) and cs.callees and cs.node.args and all(_is_list_str_validator(eng, c) for c in cs.callees):
                a0 = norm(cs.node.args[0])
                if a0 == ittxt or (isinstance(it, ast.Name) and a0 == it.id):
                    vn = cfg.node_of(cs.node)
                    if vn is not None:
                        guards.append(vn)
                        elem_str = True
        local_ok = bool(guards) and cfg.must_pass(cfg.entry, L, guards)
        # E2e: the loop variable is used in a hash-based membership test (`k not in header` on a dict): its elements must be str
        kv = norm(L.ast.target)  # type: ignore[union-attr]
        hashed = []
        for t in cfg.nodes:
            if t.kind == "test" and isinstance(t.ast, ast.Compare) and isinstance(t.ast.ops[0], (ast.In, ast.NotIn)) and norm(t.ast.left) == kv:
                td = eng.types.of(crit.module, t.ast.comparators[0])
                if any(c in ("builtins.dict", "builtins.set", "builtins.frozenset") for c in td.classes) or td.any:
                    hashed.append(t)
        if hashed:
            eg = [t for t in cfg.nodes if t.kind == "test" and isinstance(t.ast, ast.Call) and isinstance(t.ast.func, ast.Name) and t.ast.func.id == "isinstance"
                  and len(t.ast.args) == 2 and norm(t.ast.args[0]) == kv and norm(t.ast.args[1]) == "str" and _edge_only_raises_allowed(eng, crit, cfg, succ_by_label(cfg, t, "false"))]
            ok_e = elem_str and local_ok or (bool(eg) and all(cfg.must_pass(cfg.entry, h, eg) for h in hashed))
            ctx.check(ok_e, "E2e", crit, hashed[0].ast, f"{crit.short} :: {norm(hashed[0].ast)}", "a member of the untrusted crit list is used as a dict key (`k not in header`) without being "
                      "checked to be a str: a nested list / object escapes as TypeError (unhashable type)", "members validated as str before the membership test",
                      construct=f"hash-based membership of {kv} in {crit.short}")
        if local_ok:
            ctx.ok("E2b", f"{crit.short} :: for … in {ittxt}", "isinstance(list) guard dominates the iteration")
            continue
        # otherwise every caller must have validated the registry (crit: list[str]) before
        vrh = P.func("registry:validate_registry_header")
        callers_ok = True
        sites = eng.cg.callers.get(crit, [])
        for s in sites:
            cf = cfg_of(s.fn)
            cn = cf.node_of(s.node)
            vs = [cf.node_of(x.node) for x in eng.cg.calls_in(s.fn) if vrh in x.callees]
            vs = [v for v in vs if v is not None]
            if cn is None or not vs or not cf.must_pass(cf.entry, cn, vs):
                callers_ok = False
                ctx.fail("E2b", s.fn, s.node, "check_crit_header iterates header['crit'] before its type was validated: a non-list crit (e.g. 1) escapes as TypeError",
                         construct=f"crit iterated before validation in {s.fn.short}")
        if callers_ok and sites:
            ctx.ok("E2b", f"{crit.short} callers", "validate_registry_header precedes check_crit_header at every call site")
        ok_all = ok_all and callers_ok


def _is_list_str_validator(eng, fn: FunctionInfo) -> bool:
    """raises (allowed error) unless its first argument is a list whose members are all str"""
    if not fn.pos_params:
        return False
    if len(fn.pos_params) == 1:
        from .common import validator_accepts_exactly
        pr = validator_accepts_exactly(eng, fn, "is_list_str")  # decided by folding on the probe battery when conclusive
        if pr is not None:
            return not pr
    cfg = cfg_of(fn)
    p = fn.pos_params[0]
    lst = elem = False
    for t in cfg.nodes:
        if t.kind != "test" or not isinstance(t.ast, ast.Call) or not isinstance(t.ast.func, ast.Name):
            continue
        if t.ast.func.id == "isinstance" and len(t.ast.args) == 2 and norm(t.ast.args[0]) == p and norm(t.ast.args[1]) == "list":
            if not can_reach_exit(cfg, succ_by_label(cfg, t, "false")):
                lst = True
        if t.ast.func.id == "all" and t.ast.args and isinstance(t.ast.args[0], (ast.GeneratorExp, ast.ListComp)):
            g = t.ast.args[0]
            if norm(g.generators[0].iter) == p and norm(g.elt) == f"isinstance({norm(g.generators[0].target)}, str)" and not can_reach_exit(cfg, succ_by_label(cfg, t, "false")):
                elem = True
    return lst and elem


def e2e_validators(ctx) -> None:
    """validators receive header / JWK values of *any* JSON type: a hash-based membership test (`value in <set/dict>`) on such a
    value needs a preceding str check, a list-based one (== comparisons) does not"""
    eng = ctx.eng
    P = eng.prog
    vals: List[FunctionInfo] = []
    for fn in P.all_functions():
        for s in eng.cg.calls_in(fn):
            if s.kind == "attrfn" and s.attr == "validate":
                for c in s.callees:
                    if c not in vals:
                        vals.append(c)
    ctx.count("E2e", len(vals), 7, "value validators reached through registry entries")
    n = 0
    for V in vals:
        if not V.pos_params:
            continue
        p = V.pos_params[0]
        cfg = cfg_of(V)
        for t in cfg.nodes:
            tests = [t.ast] if t.kind == "test" else []
            if t.kind == "test" and isinstance(t.ast, ast.Call) and isinstance(t.ast.func, ast.Name) and t.ast.func.id in ("all", "any") and t.ast.args \
                    and isinstance(t.ast.args[0], (ast.GeneratorExp, ast.ListComp)):
                tests.append(t.ast.args[0].elt)
            for e in tests:
                if not (isinstance(e, ast.Compare) and isinstance(e.ops[0], (ast.In, ast.NotIn))):
                    continue
                left = norm(e.left)
                derived = left == p or any(isinstance(x, ast.comprehension) and norm(x.target) == left and norm(x.iter) == p for x in ast.walk(t.ast))
                if not derived:
                    continue
                n += 1
                # container kind: a closure variable / constant holding the choices
                cont = e.comparators[0]
                td = eng.types.of(V.module, cont)
                hash_based = any(c in ("builtins.dict", "builtins.set", "builtins.frozenset") for c in td.classes)
                if isinstance(cont, ast.Name) and V.parent is not None:
                    for kind, dn, extra in eng.flow._defs(V.parent).get(cont.id, []):
                        if kind == "assign" and isinstance(dn, ast.Call) and isinstance(dn.func, ast.Name) and dn.func.id in ("set", "frozenset", "dict"):
                            hash_based = True
                if isinstance(cont, (ast.Set, ast.Dict)) or (isinstance(cont, ast.Call) and isinstance(cont.func, ast.Name) and cont.func.id in ("set", "frozenset")):
                    hash_based = True
                guarded = any(g.kind == "test" and isinstance(g.ast, ast.Call) and isinstance(g.ast.func, ast.Name) and g.ast.func.id == "isinstance" and norm(g.ast.args[0]) == left
                              and norm(g.ast.args[1]) == "str" and cfg.dominates(g, t) for g in cfg.nodes)
                ctx.check(not hash_based or guarded, "E2e", V, e, f"{V.short} :: {norm(e)}", "a validator tests an untrusted value for membership in a hash-based container without a str check: "
                          "an unhashable JSON value (list / object) escapes as TypeError instead of ValueError", "list-based membership (== comparisons) or str-guarded",
                          construct=f"hash-based membership {norm(e)} in {V.short}")
    ctx.extra["validator_membership_tests"] = n


# ----------------------------------------------------------------------------------------------- E2c
def e2c(ctx) -> None:
    """names given to get_alg / get_enc / get_zip: the gate refuses non-str names cleanly, and the header member exists"""
    from .common import resolve_all as _ra
    eng = ctx.eng
    P = eng.prog
    gates = []
    for r in ("rfc7515.registry:JWSRegistry", "rfc7516.registry:JWERegistry"):
        c = P.cls(r)
        for nm in ("get_alg", "get_enc", "get_zip"):
            f = c.lookup(nm)
            if f is not None:
                gates.append(f)
    checked_fns: Set[FunctionInfo] = set()
    for g in gates:
        # the function that performs `name in table`
        targets = [g] + [c for s in eng.cg.calls_in(g) for c in s.callees if c.cls is not None and g.cls is not None and (c.cls is g.cls or c.cls in g.cls.mro)]
        ok = False
        for f in targets:
            cfg = cfg_of(f)
            if len(f.pos_params) < 2:
                continue
            np_ = f.pos_params[1]
            member = [t for t in cfg.nodes if t.kind == "test" and isinstance(t.ast, ast.Compare) and norm(t.ast.left) == np_
                      and isinstance(t.ast.ops[0], (ast.In, ast.NotIn))]
            if not member:
                continue
            tg = [t for t in cfg.nodes if t.kind == "test" and isinstance(t.ast, ast.Call) and isinstance(t.ast.func, ast.Name) and t.ast.func.id == "isinstance"
                  and len(t.ast.args) == 2 and norm(t.ast.args[0]) == np_ and norm(t.ast.args[1]) == "str"
                  and _edge_only_raises_allowed(eng, f, cfg, succ_by_label(cfg, t, "false"))]
            if tg and all(cfg.must_pass(cfg.entry, m, tg) for m in member):
                ok = True
                checked_fns.add(f)
        ctx.check(ok, "E2c", g, g.node, f"{g.short} :: well-typed name", "the algorithm gate performs `name in table` on a header value that may be any JSON type: "
                  "an unhashable value (list / object) escapes as TypeError", "isinstance(name, str) guard (raising an allowed error) dominates the table membership test",
                  construct=f"type guard of {g.short}")
    # presence: a subscript header['alg'|'enc'|'zip'] given to a gate must be presence-guarded
    n = 0
    chk = []
    for r in ("rfc7515.registry:JWSRegistry", "rfc7516.registry:JWERegistry", "rfc7797.registry:JWSRegistry"):
        f = P.cls(r).methods.get("check_header")
        if f is not None:
            chk.append(f)
    cscope = consume_scope(eng)

    def produce_only(fn_, cn_, cfg_) -> bool:
        """the site is reachable only on the true arm of a test of a bool parameter that every call from the consuming side leaves False"""
        for t in cfg_.nodes:
            if t.kind == "test" and isinstance(t.ast, ast.Name) and t.ast.id in fn_.params and cn_ is not None \
                    and cn_ not in cfg_.reachable(cfg_.entry, edge_filter=lambda x, y, lab, _t=t: not (x is _t and lab == "true")):
                p_ = t.ast.id
                d_ = fn_.param_default(p_)
                sites_ = [cs_ for cs_ in eng.cg.callers.get(fn_, []) if cs_.fn in cscope and isinstance(cs_.node, ast.Call)]
                vals = []
                for cs_ in sites_:
                    a_ = eng.cg.arg_for_param(cs_, fn_, p_)
                    vals.append(a_ if a_ is not None else d_)
                if sites_ and all(v_ is not None and is_const(v_, False) for v_ in vals) and not any(
                        isinstance(x, ast.Name) and x.id == p_ and isinstance(x.ctx, ast.Store) for x in fn_nodes(fn_)):
                    return True
        return False
    for fn in cscope:
        cfg = None
        for s in eng.cg.calls_in(fn):
            if not isinstance(s.node, ast.Call) or not s.callees or not s.node.args:
                continue
            a = s.node.args[0]
            if not (isinstance(a, ast.Subscript) and isinstance(a.slice, ast.Constant)):
                continue
            is_gate = all(c in gates for c in s.callees)
            if not is_gate:
                # any other repo callee keyed by the algorithm members of a merged header view (`pick_random_key(headers["alg"])`)
                if a.slice.value not in ("alg", "enc", "zip") or not any(t_.endswith(".headers()") for t_ in _ra(eng, fn, a.value)):
                    continue
                cfg = cfg or cfg_of(fn)
                if produce_only(fn, cfg.node_of(s.node), cfg):
                    continue
            n += 1
            key = a.slice.value
            base = norm(a.value)
            cfg = cfg or cfg_of(fn)
            cn = cfg.node_of(s.node)
            # (1) `"key" in base` dominating, (2) check_header(base) dominating (required member), (3) the extractor of this entry checked it
            guards = [t for t in cfg.nodes if t.kind == "test" and isinstance(t.ast, ast.Compare) and const_value(t.ast.left) == key
                      and norm(t.ast.comparators[0]) == base and isinstance(t.ast.ops[0], ast.In)]
            okp = any(cn not in cfg.reachable(cfg.entry, edge_filter=lambda x, y, lab, _t=t: not (x is _t and lab == "true")) for t in guards)
            if not okp:
                cs = [cfg.node_of(x.node) for x in eng.cg.calls_in(fn) if x.callees and all(c in chk for c in x.callees) and isinstance(x.node, ast.Call)
                      and x.node.args and norm(x.node.args[0]) == base]
                cs = [c for c in cs if c is not None]
                req = key in ("alg", "enc")
                okp = bool(cs) and req and cfg.must_pass(cfg.entry, cn, cs)
            if not okp:
                # validate_registry_header(<registry>, base) enforces the required members alg / enc
                vrh = P.func("registry:validate_registry_header")
                vs = []
                for x in eng.cg.calls_in(fn):
                    if vrh in x.callees and isinstance(x.node, ast.Call) and len(x.node.args) >= 2 and norm(x.node.args[1]) == base:
                        cr = eng.cg.arg_for_param(x, vrh, "check_required")
                        if cr is None or is_const(cr, True):
                            vn = cfg.node_of(x.node)
                            if vn is not None:
                                vs.append(vn)
                okp = bool(vs) and key in ("alg", "enc") and cfg.must_pass(cfg.entry, cn, vs)
            if not okp:
                okp = _extractors_require(eng, fn, a, key)
            ctx.check(okp, "E2c", fn, s.node, f"{fn.short} :: {norm(s.node)[:50]}", f"header member {key!r} is subscripted for an algorithm lookup without its presence being "
                      "established (KeyError for a token that lacks it)", "presence established by a dominating test / check_header / the extractor",
                      construct=f"presence of {key!r} before {norm(s.node)[:50]}")
    ctx.count("E2c", n, 7, "gate call sites keyed by a header member")


def _extractors_require(eng, fn: FunctionInfo, sub: ast.Subscript, key: str) -> bool:
    """every extractor that builds the object whose header is read raises unless `key` is in the decoded protected header"""
    P = eng.prog
    # which field is read: <obj>.protected[key]
    if not (isinstance(sub.value, ast.Attribute) and sub.value.attr == "protected"):
        return False
    classes, _, _, _ = eng.cg._recv_classes(fn, sub.value.value)
    if not classes:
        return False
    ok_any = False
    for E in entries(eng, JWE_CONSUME + JWS_CONSUME):
        scope = scope_of(eng, E)
        if fn not in scope:
            continue
        for f in scope:
            for s in eng.cg.calls_in(f):
                if s.kind != "ctor" or not isinstance(s.node, ast.Call):
                    continue
                made = [eng.cg.class_by_fullname(c) for c in s.recv_classes]
                if not any(m is not None and any(m is c or c in m.mro or m in c.mro for c in classes) for m in made):
                    continue
                if not s.node.args:
                    return False
                pv = s.node.args[0]
                cfg = cfg_of(f)
                cn = cfg.node_of(s.node)
                guards = [t for t in cfg.nodes if t.kind == "test" and isinstance(t.ast, ast.Compare) and const_value(t.ast.left) == key
                          and norm(t.ast.comparators[0]) == norm(pv) and isinstance(t.ast.ops[0], (ast.In, ast.NotIn))]
                good = False
                for t in guards:
                    lab_absent = "false" if isinstance(t.ast.ops[0], ast.In) else "true"
                    if not can_reach_exit(cfg, succ_by_label(cfg, t, lab_absent)) and cn is not None and cfg.must_pass(cfg.entry, cn, [t]):
                        good = True
                if not good and isinstance(pv, ast.Name):
                    # the header comes from a helper that itself refuses a header without the member
                    defs = [d for d in eng.flow._defs(f).get(pv.id, []) if d[0] == "assign"]
                    if defs and all(isinstance(d[1], ast.Call) and _helper_requires(eng, eng.cg.site_of.get(id(d[1])), key) for d in defs):
                        good = True
                if not good:
                    return False
                ok_any = True
    return ok_any


def _helper_requires(eng, site: Optional[CallSite], key: str) -> bool:
    if site is None or not site.callees:
        return False
    for h in site.callees:
        cfg = cfg_of(h)
        rets = cfg.returns()
        if not rets:
            return False
        for r in rets:
            v = r.ast.value
            if not isinstance(v, ast.Name):
                return False
            guards = [t for t in cfg.nodes if t.kind == "test" and isinstance(t.ast, ast.Compare) and const_value(t.ast.left) == key
                      and norm(t.ast.comparators[0]) == v.id and isinstance(t.ast.ops[0], (ast.In, ast.NotIn))]
            ok = False
            for t in guards:
                lab_absent = "false" if isinstance(t.ast.ops[0], ast.In) else "true"
                if not can_reach_exit(cfg, succ_by_label(cfg, t, lab_absent)) and cfg.must_pass(cfg.entry, r, [t]):
                    ok = True
            if not ok:
                return False
    return True


# ----------------------------------------------------------------------------------------------- E2d
def e2d(ctx) -> None:
    eng = ctx.eng
    P = eng.prog
    n = 0
    for fn in consume_scope(eng):
        cfg = None
        for node in fn_nodes(fn):
            if not (isinstance(node, ast.Subscript) and isinstance(node.ctx, ast.Load)):
                continue
            if isinstance(node.slice, (ast.Constant, ast.Slice)):
                continue
            tab = node.value
            # module-level / class-level tables only
            is_table = False
            if isinstance(tab, ast.Name):
                r = eng.cg.resolve_name(fn, tab.id)
                is_table = isinstance(r, tuple) and r[0] == "var"
            elif isinstance(tab, ast.Attribute) and isinstance(tab.value, ast.Name) and fn.cls is not None and tab.value.id == fn.self_name:
                is_table = fn.cls.lookup_attr(tab.attr) is not None and isinstance(fn.cls.lookup_attr(tab.attr)[1], (ast.Dict, ast.Name))
            elif isinstance(tab, ast.Attribute) and eng.cg._is_static_chain(fn, tab):
                is_table = True
            if not is_table:
                continue
            # typing generics (t.Dict[str, X]) and annotations are not lookups
            root = tab
            while isinstance(root, ast.Attribute):
                root = root.value
            if isinstance(root, ast.Name):
                from ..program import Ext as _Ext, Module as _Mod
                rr = eng.cg.resolve_name(fn, root.id)
                if isinstance(rr, (_Ext,)) or (isinstance(rr, _Mod)):
                    continue
            # only keys that can carry token / JWK data: a member of a mapping, or a parameter
            kexpr = node.slice
            from .c05 import _resolve_local
            import copy as _copy
            ktxt_full = _resolve_local(eng, fn, kexpr)
            try:
                kparsed = ast.parse(ktxt_full, mode="eval").body
            except SyntaxError:
                kparsed = kexpr
            from_mapping = any(isinstance(x, ast.Subscript) and isinstance(x.slice, ast.Constant) and isinstance(x.slice.value, str) for x in ast.walk(kparsed)) or \
                any(isinstance(x, ast.Call) and isinstance(x.func, ast.Attribute) and x.func.attr == "get" for x in ast.walk(kparsed))
            from_param = isinstance(kexpr, ast.Name) and kexpr.id in fn.params
            if not (from_mapping or from_param):
                continue
            n += 1
            cfg = cfg or cfg_of(fn)
            cn = cfg.node_of(node)
            ktxt = norm(node.slice)
            ttxt = norm(tab)
            guards = [t for t in cfg.nodes if t.kind == "test" and isinstance(t.ast, ast.Compare) and norm(t.ast.left) == ktxt
                      and norm(t.ast.comparators[0]) == ttxt and isinstance(t.ast.ops[0], (ast.In, ast.NotIn))]
            ok = False
            for t in guards:
                lab_in = "true" if isinstance(t.ast.ops[0], ast.In) else "false"
                if cn is not None and cn not in cfg.reachable(cfg.entry, edge_filter=lambda x, y, lab, _t=t, _l=lab_in: not (x is _t and lab == _l)):
                    ok = True
            if not ok:
                # enclosed by a handler that maps KeyError
                cur = P.parent(node)
                while cur is not None and not isinstance(cur, (ast.FunctionDef, ast.AsyncFunctionDef)):
                    if isinstance(cur, ast.Try) and any(node is x for b in cur.body for x in ast.walk(b)):
                        for h in cur.handlers:
                            names = [norm(e) for e in (h.type.elts if isinstance(h.type, ast.Tuple) else [h.type])] if h.type is not None else ["*"]
                            if any(x in ("KeyError", "LookupError", "Exception", "*") for x in names):
                                ok = True
                    cur = P.parent(cur)
            if not ok:
                # keys that are literals at every call site and members of the folded table (operations)
                ok = _literal_keys_ok(eng, fn, node)
            ctx.check(ok, "E2d", fn, node, f"{fn.short} :: {norm(node)}", f"table lookup {norm(node)} is keyed by a value that can come from token / JWK data and is not "
                      "guarded by a membership test or a KeyError handler (unknown value escapes as KeyError, unhashable as TypeError)",
                      "membership test / handler / literal keys", construct=f"unguarded lookup {norm(node)}")
    ctx.count("E2d", n, 3, "table lookups keyed by mapping members / parameters in consume-reachable code")


def e2f(ctx) -> None:
    """membership tests `member in TABLE` against a hash table: an unhashable JSON value (list / object) makes the test itself
    raise TypeError, so the member must be known to be a str - by a dominating isinstance test or because its registry entry
    validates it as a string before this code runs"""
    eng = ctx.eng
    P = eng.prog
    F = eng.folder
    from .c05 import _resolve_local
    # member name -> validator names declared for it in the JWK registries
    decl: Dict[str, Set[str]] = {}

    def add_reg(reg):
        if isinstance(reg, dict):
            for k, p_ in reg.items():
                v = F.get_attr(p_, "validate")
                decl.setdefault(k, set()).add(v.fn.name if isinstance(v, FuncVal) else repr(v))
    add_reg(F.module_value(P.mod("registry"), "JWK_PARAMETER_REGISTRY"))
    bk = P.cls("rfc7517.models:BaseKey")
    for c in bk.all_subclasses():
        add_reg(F.class_attr(c, "value_registry"))
    n = 0
    for fn in consume_scope(eng):
        cfg = None
        for node in fn_nodes(fn):
            if not (isinstance(node, ast.Compare) and len(node.ops) == 1 and isinstance(node.ops[0], (ast.In, ast.NotIn))):
                continue
            left = node.left
            ltxt = _resolve_local(eng, fn, left)
            try:
                lp = ast.parse(ltxt, mode="eval").body
            except SyntaxError:
                continue
            if not (isinstance(lp, ast.Subscript) and isinstance(lp.slice, ast.Constant) and isinstance(lp.slice.value, str) and isinstance(lp.value, ast.Name) and lp.value.id in fn.params):
                continue
            member = lp.slice.value
            # the container is a hash table (dict / set) of the repository
            tab = node.comparators[0]
            tv = None
            if isinstance(tab, ast.Attribute) and isinstance(tab.value, ast.Name) and fn.cls is not None and tab.value.id == fn.self_name:
                tv = F.class_attr(fn.cls, tab.attr)
            elif isinstance(tab, ast.Name):
                r = eng.cg.resolve_name(fn, tab.id)
                if isinstance(r, tuple) and r[0] == "var":
                    tv = F.module_value(fn.module, tab.id)
            if not isinstance(tv, (dict, set, frozenset)):
                continue
            n += 1
            cfg = cfg or cfg_of(fn)
            mn = cfg.node_of(node)
            ok = False
            how = ""
            vals = decl.get(member)
            if vals and vals <= {"is_str"}:
                ok = True
                how = f"{member!r} is validated as a string by its registry entry before import (C11 R11.4)"
            else:
                ktxt = norm(left)
                ts = [t for t in cfg.nodes if t.kind == "test" and isinstance(t.ast, ast.Call) and isinstance(t.ast.func, ast.Name) and t.ast.func.id == "isinstance" and len(t.ast.args) == 2
                      and norm(t.ast.args[0]) == ktxt and norm(t.ast.args[1]) == "str"]
                if ts and mn is not None and mn not in cfg.reachable(cfg.entry, edge_filter=lambda a, b, lab, _ts=ts: not (a in _ts and lab == "true")):
                    ok = True
                    how = "dominated by isinstance(…, str)"
            ctx.check(ok, "E2f", fn, node, f"{fn.short} :: {norm(node)}", f"`{norm(node)}` hashes the JSON member {member!r} without it being known to be a string: a list / object value "
                      "escapes as TypeError (unhashable)", how or "isinstance(value, str) first", construct=f"unhashable member in {norm(node)[:60]}")
    ctx.count("E2f", n, 1, "membership tests of JWK members against hash tables")


def _literal_keys_ok(eng, fn: FunctionInfo, node: ast.Subscript) -> bool:
    if not isinstance(node.slice, ast.Name) or node.slice.id not in fn.params:
        return False
    p = node.slice.id
    F = eng.folder
    tabv = None
    if isinstance(node.value, ast.Attribute) and fn.cls is not None:
        tabv = F.class_attr(fn.cls, node.value.attr)
    if not isinstance(tabv, dict):
        return False
    # all (transitive through same-named parameters) call sites pass a constant that is a key of the table
    seen: Set[int] = set()
    work = [(fn, p)]
    total = 0
    while work:
        f, pn = work.pop()
        if (id(f), pn) in seen:
            continue
        seen.add((id(f), pn))  # type: ignore[arg-type]
        for s in eng.cg.callers.get(f, []):
            a = eng.cg.arg_for_param(s, f, pn)
            if a is None:
                return False
            if isinstance(a, ast.Constant):
                total += 1
                if a.value not in tabv:
                    return False
            elif isinstance(a, ast.Name) and a.id in s.fn.params:
                work.append((s.fn, a.id))
            else:
                return False
    return total > 0


# ----------------------------------------------------------------------------------------------- E3
ASSERT_WHITELIST = {
    ("rfc7517.models:BaseKey.get_op_key", "self.private_key is not None"):
        "implied by the dominating check_key_op (truth table verified by C06 R06.2): it raises when reg.private and not is_private, and every key class "
        "derives is_private and private_key from the same isinstance test on raw_value",
    ("rfc7797.compact:deserialize_compact", "isinstance($, CompactSignature)"):
        "type narrowing for mypy: _extract_compact returns None, True or a CompactSignature and both other cases return earlier",
    ("jwk:guess_key", "$.kid is not None"):
        "only on the produce path (use_random) and directly after ensure_kid(), which stores a thumbprint kid when absent (C13 R13.4)",
}


def _shape(eng, fn: FunctionInfo, e: ast.AST) -> str:
    """text of e with the locals of fn (not parameters, not module names) replaced by `$`: whitelist entries do not depend on
    today's variable names"""
    import copy
    loc = eng.cg.local_names(fn) - set(fn.params)

    class Sub(ast.NodeTransformer):
        def visit_Name(self, n: ast.Name):
            if n.id in loc:
                return ast.copy_location(ast.Name(id="$", ctx=n.ctx), n)
            return n
    return norm(Sub().visit(copy.deepcopy(e)))


def e3(ctx) -> None:
    eng = ctx.eng
    P = eng.prog
    F = eng.folder
    n = 0
    for fn in consume_scope(eng):
        for node in fn_nodes(fn):
            if not isinstance(node, ast.Assert):
                continue
            n += 1
            test = node.test
            txt = norm(test)
            inst = f"{fn.short} :: assert {txt}"
            w = ASSERT_WHITELIST.get((fn.short, _shape(eng, fn, test)))
            if w is not None:
                ctx.ok("E3", inst, "whitelisted: " + w)
                continue
            why = None
            why = why or _j1_required_header(eng, fn, test)
            why = why or _j2_class_family(eng, fn, node)
            why = why or _j3_field_set(eng, fn, test)
            why = why or _j4_literal_operation(eng, fn, node)
            if why is None:
                ctx.fail("E3", fn, node, f"`assert {txt}` is reachable from a consume entry and nothing establishes it for every token: "
                         "a crafted token escapes as AssertionError", construct=f"assert {txt}")
            else:
                ctx.ok("E3", inst, why)
    ctx.count("E3", n, 25, "asserts in consume-reachable code")


def _j1_required_header(eng, fn: FunctionInfo, test: ast.expr) -> Optional[str]:
    if not (isinstance(test, ast.Compare) and len(test.ops) == 1 and isinstance(test.ops[0], ast.In) and isinstance(test.left, ast.Constant)):
        return None
    key = test.left.value
    if fn.cls is None:
        return None
    F = eng.folder
    for c in [fn.cls] + fn.cls.all_subclasses():
        reg = F.class_attr(c, "more_header_registry")
        if not isinstance(reg, dict) or key not in reg:
            return None
        if F.get_attr(reg[key], "required") is not True:
            return None
    # the view tested is the recipient's merged headers
    defs = [d for d in eng.flow._defs(fn).get(norm(test.comparators[0]), []) if d[0] == "assign"]
    if not defs or not all(norm(d[1]).endswith(".headers()") for d in defs):
        return None
    # ... and JWERegistry.check_header validates the model's own table on every path, strict or not
    from .c15 import alg_specific_validation_ok
    chk = eng.prog.cls("rfc7516.registry:JWERegistry").methods.get("check_header")
    if chk is None or not alg_specific_validation_ok(eng, chk):
        return None
    return f"J1: {key!r} is required in {fn.cls.name}.more_header_registry, JWERegistry.check_header validates that table on every path and check_header(…, check_more=True) runs before CEK recovery (C15 R15.1)"


def _j2_class_family(eng, fn: FunctionInfo, node: ast.Assert) -> Optional[str]:
    test = node.test
    if not (isinstance(test, ast.Call) and isinstance(test.func, ast.Name) and test.func.id == "isinstance" and len(test.args) == 2
            and isinstance(test.args[0], ast.Name)):
        return None
    var = test.args[0].id
    if var not in fn.params:
        return None
    F = eng.folder
    cfg = cfg_of(fn)
    tn = cfg.node_of(test)
    if tn is None:
        return None
    insts = _all_alg_instances(eng)
    guards = cfg.guards_of(tn)
    checked = 0
    for I in insts:
        for conj in guards:
            feasible = True
            for g, outcome in conj:
                if g.kind != "test":
                    continue
                v = F.expr(g.ast, {var: I}, fn.module)
                tv = F.truth(v)
                if tv is None:
                    continue  # undecided guard: keep the path (conservative)
                if tv != outcome:
                    feasible = False
                    break
            if not feasible:
                continue
            checked += 1
            r = F.truth(F.expr(test, {var: I}, fn.module))
            if r is not True:
                return None
    if checked == 0:
        return None
    return f"J2: holds for every folded key-management model on every feasible path ({checked} model x path combinations)"


def _j3_field_set(eng, fn: FunctionInfo, test: ast.expr) -> Optional[str]:
    if not (isinstance(test, ast.Compare) and len(test.ops) == 1 and isinstance(test.ops[0], ast.IsNot) and is_const(test.comparators[0], None)):
        return None
    e = test.left
    # resolve a local to the field it was read from
    if isinstance(e, ast.Name):
        defs = [d for d in eng.flow._defs(fn).get(e.id, []) if d[0] == "assign"]
        if len(defs) != 1 or not isinstance(defs[0][1], ast.Attribute):
            return None
        e = defs[0][1]
    if not isinstance(e, ast.Attribute):
        return None
    attr = e.attr
    classes, _, _, _ = eng.cg._recv_classes(fn, e.value)
    if not classes:
        return None
    if attr == "key_wrapping":
        # models: key_size is None <=> key_wrapping is None, and the caller is on the non-direct branch
        for I in _all_alg_instances(eng):
            if "key_wrapping" in I.attrs:
                if (I.attrs.get("key_size") is None) != (I.attrs.get("key_wrapping") is None):
                    return None
        return "J3: for every folded key-agreement model key_wrapping is None iff key_size is None (direct mode), and *_with_auk is only called when not direct_mode"
    # every entry whose scope contains fn sets the field (non-None) on every path of each function that constructs the object
    P = eng.prog
    found = 0
    for E in eng.consume_entries():
        scope = scope_of(eng, E)
        if fn not in scope:
            continue
        ctor_fns = []
        for f in scope:
            for s in eng.cg.calls_in(f):
                if s.kind == "ctor" and any((eng.cg.class_by_fullname(c) in classes) or any(eng.cg.class_by_fullname(c) in k.mro for k in classes) or
                                           any(k in (eng.cg.class_by_fullname(c).mro if eng.cg.class_by_fullname(c) else []) for k in classes) for c in s.recv_classes):
                    ctor_fns.append((f, s))
        if not ctor_fns:
            return None
        for f, s in ctor_fns:
            # the constructor itself may set it from an argument
            init = s.callees[0] if s.callees else None
            set_by_ctor = False
            if init is not None:
                for x in fn_nodes(init):
                    if isinstance(x, (ast.Assign, ast.AnnAssign)):
                        tg = x.targets[0] if isinstance(x, ast.Assign) else x.target
                        if isinstance(tg, ast.Attribute) and tg.attr == attr and isinstance(x.value, ast.Name) and x.value.id in init.params:
                            a = eng.cg.arg_for_param(s, init, x.value.id)
                            if a is not None and not is_const(a, None):
                                set_by_ctor = True
            if set_by_ctor:
                found += 1
                continue
            # otherwise: stores <var>.<attr> = <non-None> on every path from the construction to the normal exit, in f or in the entry
            ok = _stores_before_exit(eng, f, s, attr) or _stores_in_callers(eng, E, scope, classes, attr)
            if not ok:
                return None
            found += 1
    if found == 0:
        return None
    return f"J3: .{attr} is assigned a non-None value on every path of every constructing function / entry ({found} construction sites)"


def _stores_before_exit(eng, f: FunctionInfo, s: CallSite, attr: str) -> bool:
    par = eng.prog.parent(s.node)
    if not isinstance(par, (ast.Assign, ast.AnnAssign)):
        return False
    tg = par.targets[0] if isinstance(par, ast.Assign) else par.target
    if not isinstance(tg, ast.Name):
        return False
    var = tg.id
    cfg = cfg_of(f)
    C = cfg.node_of(par)
    stores = []
    for x in fn_nodes(f):
        if isinstance(x, (ast.Assign, ast.AnnAssign)) and x.value is not None:
            t2 = x.targets[0] if isinstance(x, ast.Assign) else x.target
            if isinstance(t2, ast.Attribute) and t2.attr == attr and norm(t2.value) == var and not is_const(x.value, None):
                cn = cfg.node_of(x)
                if cn is not None:
                    stores.append(cn)
    return bool(stores) and C is not None and cfg.must_pass(C, cfg.exit, stores)


def _stores_in_callers(eng, E: FunctionInfo, scope, classes, attr: str) -> bool:
    """the entry (or a helper looping over the objects) assigns the field for every object before the consumer runs"""
    for f in scope:
        cfg = cfg_of(f)
        for x in fn_nodes(f):
            if isinstance(x, (ast.Assign, ast.AnnAssign)) and x.value is not None:
                t2 = x.targets[0] if isinstance(x, ast.Assign) else x.target
                if isinstance(t2, ast.Attribute) and t2.attr == attr and not is_const(x.value, None):
                    cls2, _, _, _ = eng.cg._recv_classes(f, t2.value)
                    if not any(c in classes or any(c in k.mro or k in c.mro for k in classes) for c in cls2):
                        continue
                    cn = cfg.node_of(x)
                    if cn is None:
                        continue
                    loops = [l for l in cfg.nodes if l.kind == "loop" and any(y is x for y in ast.walk(l.ast))]  # type: ignore[arg-type]
                    if loops:
                        L = loops[-1]
                        if all(L not in cfg.reachable(s0, [cn]) or s0 is cn for s0 in succ_by_label(cfg, L, "iter")):
                            return True
                    elif cfg.must_pass(cfg.entry, cfg.exit, [cn]):
                        return True
    return False


def _j4_literal_operation(eng, fn: FunctionInfo, node: ast.Assert) -> Optional[str]:
    test = node.test
    if not (isinstance(test, ast.Compare) and len(test.ops) == 1 and isinstance(test.ops[0], ast.In) and isinstance(test.left, ast.Name)
            and test.left.id in fn.params and isinstance(test.comparators[0], ast.Attribute)):
        return None
    sub = ast.Subscript(value=test.comparators[0], slice=test.left, ctx=ast.Load())
    ast.copy_location(sub, test)
    if _literal_keys_ok(eng, fn, sub):
        return "J4: every (transitive) call site passes a literal that is a key of the folded table"
    return None


# ----------------------------------------------------------------------------------------------- E4
def e4(ctx) -> None:
    eng = ctx.eng
    P = eng.prog
    ver = impls(eng, "rfc7515.model:JWSAlgModel", "verify", include_abstract=True)
    ckt = impls(eng, "rfc7515.model:JWSAlgModel", "check_key_type", include_abstract=True)
    n = 0
    seen: Set[int] = set()
    for E in entries(eng, JWS_CONSUME):
        scope = scope_of(eng, E)
        for s in sites_calling(eng, ver, scope):
            if id(s) in seen or not isinstance(s.node, ast.Call) or s.kind not in ("method", "cha"):
                continue
            seen.add(id(s))
            n += 1
            ok = _dominated_by_key_type(eng, s, ckt, set())
            ctx.check(ok, "E4", s.fn, s.node, f"{s.fn.short} :: {norm(s.node)[:50]}", "the signature is verified without alg.check_key_type(key) before it: a key of the wrong type fails "
                      "inside the primitive with TypeError / AttributeError instead of InvalidKeyTypeError", "check_key_type(key) dominates (here or in every caller)",
                      construct=f"key-type gate before {norm(s.node)[:50]}")
    # JWE: each CEK-recovery method checks the key type itself
    km = P.cls("rfc7516.models:KeyManagement")
    ckm = eng.prog.implementations(km, "check_key_type", include_abstract=True)
    for nm in ("decrypt_cek", "decrypt_agreed_upon_key", "decrypt_agreed_upon_key_with_tag", "compute_cek"):
        for M in eng.prog.implementations(km, nm):
            fns = [M] + [c for s in eng.cg.calls_in(M) for c in s.callees if c.cls is M.cls and c.name.startswith("_")]
            for f in fns:
                cfg = cfg_of(f)
                uses = [s for s in eng.cg.calls_in(f) if isinstance(s.node, ast.Call) and s.attr in ("get_op_key", "exchange_derive_key", "import_key")]
                uses += [s for s in eng.cg.calls_in(f) if s.kind == "property" and s.attr == "raw_value"]
                if not uses:
                    continue
                gates = [cfg.node_of(s.node) for s in eng.cg.calls_in(f) if isinstance(s.node, ast.Call) and s.callees and all(c in ckm for c in s.callees)]
                gates = [g for g in gates if g is not None]
                n += 1
                ok = bool(gates) and all(cfg.must_pass(cfg.entry, cfg.node_of(u.node), gates) for u in uses if cfg.node_of(u.node) is not None)
                ctx.check(ok, "E4", f, f.node, f"{f.short} :: key-type gate", f"{f.short} uses the recipient key without self.check_key_type(key): a key of another type fails with "
                          "AttributeError / TypeError instead of InvalidKeyTypeError", "self.check_key_type(key) dominates every use of the key", construct=f"key-type gate in {f.short}")
    ctx.count("E4", n, 10, "verification / CEK-recovery sites")


def _dominated_by_key_type(eng, s: CallSite, ckt, visiting: Set[int]) -> bool:
    fn = s.fn
    cfg = cfg_of(fn)
    cn = cfg.node_of(s.node)
    if cn is None:
        return False
    gates = [cfg.node_of(x.node) for x in eng.cg.calls_in(fn) if isinstance(x.node, ast.Call) and x.callees and all(c in ckt for c in x.callees)]
    gates = [g for g in gates if g is not None]
    if gates and cfg.must_pass(cfg.entry, cn, gates):
        return True
    # all callers (within consume scope) establish it before calling fn
    if id(fn) in visiting:
        return False
    visiting.add(id(fn))
    callers = [c for c in eng.cg.callers.get(fn, []) if isinstance(c.node, ast.Call)]
    if not callers:
        return False
    return all(_dominated_by_key_type(eng, c, ckt, visiting) for c in callers)


def e6_none_safety(ctx) -> None:
    """type-level witness: the repository's own type checker (mypy, run as a library by the typed layer) reports no place in
    consume-reachable code where an Optional value is used as if it were present.  Deleting a `None` guard makes the program
    fail to type-check at exactly the use that would raise AttributeError / TypeError for a crafted token."""
    import re as _re
    eng = ctx.eng
    if eng.types is None:
        raise AnalysisError("E6 needs the typed layer")
    scope = set(consume_scope(eng))
    by_path = {}
    for m in eng.prog.modules.values():
        by_path[m.relpath.replace(os.sep, "/")] = m
    n = 0
    # an assignment the checker rejects (`x = helper(x)` where the helper returns a base class of the declared `Sub | None`) leaves the variable at its
    # declared Optional type in the checker's eyes although the value assigned is, by the checker's own account, not Optional: Optional-use diagnostics
    # about that declared type after such an assignment are artefacts of the rejected narrowing, not witnesses of a missing value
    unnarrowed: List[Tuple[str, int, str]] = []
    for d in eng.types.diagnostics:
        ma = _re.match(r'(.+?):(\d+)(?::\d+)?: error: Incompatible types in assignment \(expression has type "([^"]*)", variable has type "([^"]*)"\)', d)
        if ma and "None" not in ma.group(3) and "Optional[" not in ma.group(3) and ("| None" in ma.group(4) or "Optional[" in ma.group(4)):
            short_t = " | ".join(x.strip().rsplit(".", 1)[-1] for x in ma.group(4).split("|"))
            unnarrowed.append((ma.group(1).replace(os.sep, "/"), int(ma.group(2)), short_t))
    for d in eng.types.diagnostics:
        mm = _re.match(r"(.+?):(\d+)(?::\d+)?: error: (.*?)(?:\s+\[([a-z-]+)\])?$", d)
        if not mm:
            continue
        path, line, msg, code = mm.group(1).replace(os.sep, "/"), int(mm.group(2)), mm.group(3), mm.group(4) or ""
        if code == "union-attr" and any(p_ == path and l_ < line and f'of "{t_}"' in msg for p_, l_, t_ in unnarrowed):
            fa = next((f for f in (by_path[path].functions if path in by_path else []) if f.name != "<module>" and f.node.lineno <= line <= getattr(f.node, "end_lineno", f.node.lineno)), None)
            if fa is not None and any(p_ == path and fa.node.lineno <= l_ < line for p_, l_, t_ in unnarrowed):
                continue
        m = by_path.get(path)
        if m is None:
            continue
        fn = None
        for f in m.functions:
            if f.node.lineno <= line <= getattr(f.node, "end_lineno", f.node.lineno) and (fn is None or f.node.lineno >= fn.node.lineno) and f.name != "<module>":
                fn = f
        if fn is None or fn not in scope:
            # code of a helper that was inlined keeps its positions: the line belongs to every function that now contains a node from it
            hosts = [f for f in scope if f.module is m and any(getattr(x, "lineno", None) == line for x in ast.walk(f.node))]
            if hosts:
                fn = hosts[0]
        none_related = "None" in msg or "Optional[" in msg
        if code == "arg-type":
            # only when None is what separates the given type from the expected one ("X | None" given where "X" is expected): a union that is
            # wider in another member as well (a callable chosen by a conditional expression) is a typing matter, not a missing value
            mt = _re.search(r'has incompatible type "([^"]*)"; expected "([^"]*)"', msg)
            if mt:
                def parts(t_):
                    t_ = _re.sub(r"Optional\[(.*)\]", r"\1 | None", t_)
                    return {x.strip() for x in t_.split("|")}
                given, expected = parts(mt.group(1)), parts(mt.group(2))
                none_related = "None" in given and "None" not in expected
        if fn is not None and fn in scope and code == "attr-defined" and not none_related and "has no attribute" in msg:
            n += 1
            ctx.fail("E6", fn, None, f"the type checker finds an attribute access that the static type does not support ({msg}) at line {line} of consume-reachable code: for a value of "
                     "the declared type that is not of the assumed subclass it escapes as AttributeError", construct=f"attribute not on the static type: {msg[:80]}")
            continue
        if fn is not None and fn in scope and none_related and code in ("union-attr", "arg-type", "index", "operator", "call-overload", "attr-defined", "return-value", "misc", "call-arg"):
            n += 1
            node = next((x for x in ast.walk(fn.node) if getattr(x, "lineno", None) == line and isinstance(x, ast.stmt)), fn.node)
            ctx.fail("E6", fn, node, f"a value that may be None is used as if it were present ({msg} [{code}]): a token that leaves it unset escapes as AttributeError / TypeError",
                     construct=f"Optional use [{code}] {msg[:80]}")
    ctx.ok("E6", "type checker diagnostics", f"{len(eng.types.diagnostics)} mypy diagnostics in the package, {n} Optional-use diagnostics in consume-reachable functions")


def e9_untyped_containers(ctx) -> None:
    """E9  a JSON member chosen by the attacker is of any JSON type: `x in member`, `for x in member` (and comprehensions) raise TypeError for a
    number / true / null.  In consume-reachable code no membership test or iteration runs over an expression that is still of type Any and was
    read from a header / JSON object (`h.get("crit")`, `h["crit"]`); an isinstance test narrows the type, which is what the type-checked program
    shows.  (check_crit_header's loop is decided by E2b: validated by the registry before.)"""
    eng = ctx.eng
    from .common import resolve_all
    import re
    member_read = re.compile(r"(\.get\('[^']*'(, [^()]*)?\)|\['[^']*'\])$")
    crit = eng.prog.func("registry:check_crit_header")
    n = seen_e2b = 0
    for fn in consume_scope(eng):
        for node in fn_nodes(fn):
            v = None
            if isinstance(node, ast.Compare) and len(node.ops) == 1 and isinstance(node.ops[0], (ast.In, ast.NotIn)):
                v = node.comparators[0]
            elif isinstance(node, (ast.For, ast.comprehension)):
                v = node.iter
            elif isinstance(node, ast.Starred):
                v = node.value
            if v is None:
                continue
            n += 1
            td = eng.types.of(fn.module, v)
            if not td.any:
                continue
            texts = resolve_all(eng, fn, v)
            if not any(member_read.search(t) for t in texts):
                continue
            if fn is crit and isinstance(node, ast.For):
                seen_e2b += 1
                continue
            ctx.fail("E9", fn, node, f"`{norm(node)[:60]}` tests / iterates `{texts[0][:50]}`, a JSON member of unconstrained type: a number, boolean or null there "
                     f"escapes as TypeError (argument of type 'int' is not iterable)", construct=f"membership / iteration over an untyped JSON member in {fn.short}")
    ctx.count("E9", n, 60, "membership tests and iterations in consume-reachable code (type of the container looked up)")
    ctx.count("E9/positive", seen_e2b, 1, "the one untyped iteration (check_crit_header, decided by E2b) is recognised")


def e11_dispatch_by_presence(ctx) -> None:
    """E11  the general / flattened reader is chosen by the PRESENCE of the discriminating member (`"signatures" in value`, `"recipients" in data`):
    a truthiness test (`value.get("signatures")`) sends a general serialization with an empty list to the flattened reader, which subscripts
    members that serialization does not have - KeyError instead of the library's refusal."""
    eng = ctx.eng
    n = 0
    for fn in eng.prog.all_functions():
        if fn.module.short not in ("jws", "jwe", "rfc7797.json", "rfc7515.json", "rfc7516.json") or fn.name == "<module>":
            continue
        cfg = cfg_of(fn)
        for t in cfg.nodes:
            if t.kind != "test" or t.ast is None:
                continue
            for member in ("signatures", "recipients"):
                mentions = [x for x in ast.walk(t.ast) if isinstance(x, ast.Constant) and x.value == member]
                if not mentions:
                    continue
                n += 1
                e = t.ast
                while isinstance(e, ast.UnaryOp) and isinstance(e.op, ast.Not):
                    e = e.operand
                ok = isinstance(e, ast.Compare) and len(e.ops) == 1 and isinstance(e.ops[0], (ast.In, ast.NotIn)) and isinstance(e.left, ast.Constant) and e.left.value == member
                ctx.check(ok, "E11", fn, t.ast, f"{fn.short} :: {norm(t.ast)[:50]}", f"the serialization kind is decided by `{norm(t.ast)[:60]}`, not by the presence of \"{member}\": an empty "
                          f"\"{member}\" list reaches the reader of the other kind and escapes as KeyError", f"\"{member}\" in <value>", construct=f"dispatch on {member} in {fn.short}")
    ctx.count("E11", n, 2, "serialization-kind dispatch tests")


def run(ctx) -> None:
    ctx.guard(e11_dispatch_by_presence)
    from .c15 import r15_4 as _r15_4
    from .c15 import r15_1 as _r15_1
    ctx.guard_as("E3", _r15_1)  # the premise of J1: check_header(..., check_more=True) runs before anything reads an algorithm-specific member (else the asserts on them are reachable)
    ctx.guard_as("E10", _r15_4)  # a header member that is present is type-checked before anything uses it (null included)
    ctx.guard(e6_none_safety)
    ctx.guard(e1_e5)
    ctx.guard(e2a)
    ctx.guard(e2b)
    ctx.guard(e2e_validators)
    ctx.guard(e2c)
    ctx.guard(e2d)
    ctx.guard(e2f)
    ctx.guard(e9_untyped_containers)
    ctx.guard(e3)
    ctx.guard(e4)
    from .c02 import r02_8
    ctx.guard_as("E7", r02_8)
    from .c05 import r05_3
    from .c02 import r02_7
    ctx.guard_as("E8", r05_3)  # the algorithm gates test membership in the very table they index afterwards (no KeyError for a name of another location)
    ctx.guard_as("E8", r02_7)  # the CEK set is non-empty before it is popped (an empty recipients list is refused)  # an embedded epk only enters through the recipient key class's validating import (no key-class confusion)
    ctx.extra["consume_reachable_functions"] = len(consume_scope(ctx.eng))
    ctx.assume("external throws table jv/spec/throws.py (probed with cryptography 50.0.1, CPython 3.12.1, pycryptodome 3.23)")
    ctx.assume("well-formed keys and registries (property statement); PEM/DER loaders are only reached with the caller's own key material")
    ctx.note("undecided remainder: exceptions arising from states no rule models (e.g. one header name in protected and unprotected position with different JSON types)")
