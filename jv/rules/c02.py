"""C02 - JWE decryption returns only authenticated plaintext (structural core).

R02.1 plaintext only from enc.decrypt            R02.2 AAD = received protected-header octets (+ decoded aad)
R02.3 ciphertext / tag / iv from the token       R02.4 sibling table of JWEEncModel.decrypt
R02.5 check_iv before decrypt                    R02.6 empty encrypted key in direct modes
R02.7 CEK set rules, verify_all_recipients       R02.8 curve guards, validating epk import
R02.9 key material from the recipient being processed
"""
from __future__ import annotations
import ast
from typing import Dict, List, Optional, Set, Tuple

from ..program import AnalysisError, ClassInfo, FunctionInfo, fn_nodes, norm
from ..callgraph import CallSite
from ..cfg import cfg_of, CNode
from ..flow import leaf_hops
from ..fold import Unknown
from .common import (JWE_CONSUME, can_reach_exit, const_value, derives_from_param, entries, entry_param_leaves,
                     foreign_leaves, handler_catches, impls, is_const, leaf_param_name, scope_of, sites_calling,
                     succ_by_label)

ENC = "rfc7516.models:JWEEncModel"
COMPACT_POS = {"protected": 0, "encrypted_key": 1, "iv": 2, "ciphertext": 3, "tag": 4}


def _dec_sites(eng, scope) -> List[CallSite]:
    targets = impls(eng, ENC, "decrypt", include_abstract=True)
    return [s for s in sites_calling(eng, targets, scope) if isinstance(s.node, ast.Call) and s.kind in ("method", "cha")]


def _arg(eng, s: CallSite, pname: str) -> Optional[ast.expr]:
    for c in s.callees:
        a = eng.cg.arg_for_param(s, c, pname)
        if a is not None:
            return a
    return None


# ----------------------------------------------------------------------------------------------- R02.1
def r02_1(ctx) -> None:
    eng = ctx.eng
    P = eng.prog
    classes = [P.cls("rfc7516.models:CompactEncryption"), P.cls("rfc7516.models:BaseJSONEncryption")]
    dec = impls(eng, ENC, "decrypt", include_abstract=True)
    n = 0
    for E in entries(eng, JWE_CONSUME):
        scope = scope_of(eng, E)
        res = eng.flow.slice_field(classes, "plaintext", scope, [E], stop_at=dec)
        bad = []
        for l in res.leaves:
            if l.kind == "barrier" and l.name == "decrypt":
                continue
            if l.kind == "const" and l.name == "None":
                continue
            if l.kind == "param" and ".__init__." in l.name and l.name.endswith(".plaintext"):
                continue  # objects built by a caller for encryption; not constructed with a plaintext in this scope
            if l.kind in ("const", "global", "ext", "func", "class"):
                continue  # configuration constants of the decompressor (limits, wbits), not data
            bad.append(l)
        n += 1
        have_barrier = any(l.kind == "barrier" for l in res.leaves)
        inst = f"{E.short} :: .plaintext"
        if bad or not have_barrier:
            ctx.fail("R02.1", E, None, "the plaintext stored on the returned object does not come only from the result of "
                     f"the content decryption: {sorted(repr(b) for b in bad)[:5]}", construct=f"plaintext origin [{E.short}]",
                     slice=res.describe())
        else:
            through = sorted(x for x in res.call_names() if "decompress" in x)
            ctx.ok("R02.1", inst, "only enc.decrypt(...) results" + (f" (through {through})" if through else ""))
        # entries return only after perform_decrypt: the returned object's plaintext store is in scope by construction;
        # additionally each normal return of the entry must be preceded by a call that reaches enc.decrypt
        cfg = cfg_of(E)
        reach_dec = []
        for s in eng.cg.calls_in(E):
            if isinstance(s.node, ast.Call) and s.callees:
                sub = eng.cg.reachable(s.callees)
                if any(d in sub for d in dec):
                    cn = cfg.node_of(s.node)
                    if cn is not None:
                        reach_dec.append(cn)
        for r in cfg.returns():
            n += 1
            ok = bool(reach_dec) and cfg.must_pass(cfg.entry, r, reach_dec)
            ctx.check(ok, "R02.1", E, r.ast, f"{E.short} :: {norm(r.ast)}",
                      "the decrypt entry can return without having run the content decryption",
                      "every path passes a call that reaches enc.decrypt")
    ctx.count("R02.1", n, 5, "plaintext origin + return sites")


# ----------------------------------------------------------------------------------------------- R02.2 / R02.3
def _expect(E: FunctionInfo, what: str):
    if "compact" in E.name:
        return ("idx", COMPACT_POS[what])
    return ("key", what)


def r02_2_3(ctx) -> None:
    eng = ctx.eng
    n = 0
    for E in entries(eng, JWE_CONSUME):
        scope = scope_of(eng, E)
        sites = _dec_sites(eng, scope)
        if not sites:
            raise AnalysisError(f"no enc.decrypt call site reachable from {E.short}")
        for s in sites:
            # ---- R02.2 the AAD
            aad = _arg(eng, s, "aad")
            if aad is None:
                raise AnalysisError(f"enc.decrypt call without aad argument at {s.fn.loc(s.node)}")
            n += 1
            res = eng.flow.slice(s.fn, aad, scope, [E], partial_ok=True)
            reenc = res.passes("json_b64encode", "json.dumps")
            if res.exploded and not reenc:
                raise AnalysisError(f"value-flow slice of the AAD exploded at {s.fn.short}")
            inst = f"{E.short} -> {s.fn.short}: aad of {norm(s.node)[:40]}"
            good = True
            if reenc:
                ctx.fail("R02.2", s.fn, s.node, "the AAD given to the content decryption is rebuilt from the *parsed* protected header "
                         f"({', '.join(sorted({x.name for x in reenc}))}) instead of the received encoded header octets: a re-spelled "
                         "header authenticates, a foreign spelling is rejected",
                         construct=f"aad of {norm(s.node)[:70]} [{E.short}]", slice=res.describe())
                good = False
            want = _expect(E, "protected")
            have = set()
            for l in entry_param_leaves(res, E):
                have.update(leaf_hops(l))
            if want not in have:
                ctx.fail("R02.2", s.fn, s.node, f"the AAD does not contain the received protected-header segment {want}; has {sorted(have)}",
                         construct=f"aad coverage of {norm(s.node)[:70]} [{E.short}]", slice=res.describe())
                good = False
            # base64url re-encoding is allowed only for the decoded JSON `aad` member
            for es in res.passes("urlsafe_b64encode", "base64.urlsafe_b64encode"):
                if not isinstance(es.node, ast.Call) or not es.node.args:
                    continue
                if es.fn.short.startswith("util:"):
                    continue
                sub = eng.flow.slice(es.fn, es.node.args[0], scope, [E])
                hops = set()
                for l in entry_param_leaves(sub, E):
                    hops.update(leaf_hops(l))
                other = [h for h in hops if h != ("key", "aad")]
                if other:
                    ctx.fail("R02.2", es.fn, es.node, f"a re-encoded value other than the JSON aad member enters the AAD: {sorted(other)}",
                             construct=f"re-encoded AAD part {norm(es.node)[:60]} [{E.short}]")
                    good = False
            allowed_extra = {("key", "aad")}
            stray = [h for h in have if h != want and h not in allowed_extra]
            if stray:
                ctx.fail("R02.2", s.fn, s.node, f"token parts other than the protected header and the aad member enter the AAD: {sorted(stray)}",
                         construct=f"aad extra parts of {norm(s.node)[:70]} [{E.short}]")
                good = False
            if good:
                ctx.ok("R02.2", inst, f"leaves {sorted(have)}; no JSON re-serialisation on the slice")
            # ---- R02.3 ciphertext, tag, iv
            for pname in ("ciphertext", "tag", "iv"):
                a = _arg(eng, s, pname)
                if a is None:
                    raise AnalysisError(f"enc.decrypt call without {pname} argument")
                n += 1
                r2 = eng.flow.slice(s.fn, a, scope, [E])
                want = _expect(E, pname)
                hv = set()
                for l in entry_param_leaves(r2, E):
                    hv.update(leaf_hops(l))
                foreign = [l for l in foreign_leaves(r2, E) if l.kind not in ("ext", "global")
                           and not (l.kind == "param" and ".__init__." in l.name)]
                ok = hv == {want} and not foreign and not r2.passes("urlsafe_b64encode", "json_b64encode")
                ctx.check(ok, "R02.3", s.fn, s.node, f"{E.short} -> {s.fn.short}: {pname}",
                          f"the {pname} given to the content decryption is not exactly the received {want}: has {sorted(hv)} "
                          f"foreign={sorted(repr(x) for x in foreign)[:4]}", f"= received {want}, decoded only",
                          construct=f"{pname} of {norm(s.node)[:60]} [{E.short}]")
    # the JSON aad member takes part for *every* JSON serialization class (flattened and general alike)
    P = eng.prog
    base = P.cls("rfc7516.models:BaseJSONEncryption")
    carriers = base.all_subclasses()  # the concrete serialization classes (flattened, general)
    seen_fn: Set[int] = set()
    m_ = 0
    for E in entries(eng, JWE_CONSUME):
        for fn in scope_of(eng, E):
            if id(fn) in seen_fn or fn.name == "<module>":
                continue
            seen_fn.add(id(fn))
            apps = [x for x in fn_nodes(fn) if isinstance(x, ast.Call) and norm(x.func).endswith("urlsafe_b64encode") and x.args and isinstance(x.args[0], ast.Attribute)
                    and x.args[0].attr == "aad"]
            if not apps:
                continue
            cfg = cfg_of(fn)
            for x in apps:
                xn = cfg.node_of(x)
                if xn is None:
                    continue
                m_ += 1
                okc = True
                why = ""
                for t in cfg.nodes:
                    if t.kind != "test" or not (isinstance(t.ast, ast.Call) and isinstance(t.ast.func, ast.Name) and t.ast.func.id == "isinstance" and len(t.ast.args) == 2):
                        continue
                    if xn in cfg.reachable(cfg.entry, edge_filter=lambda a, b, lab, _t=t: not (a is _t and lab == "true")):
                        continue  # does not control the append
                    tys = t.ast.args[1].elts if isinstance(t.ast.args[1], ast.Tuple) else [t.ast.args[1]]
                    fam = set()
                    for ty in tys:
                        r = eng.cg.resolve_name(fn, ty.id) if isinstance(ty, ast.Name) else None
                        from ..program import ClassInfo as _CI
                        if isinstance(r, _CI):
                            fam.add(r)
                            fam.update(r.all_subclasses())
                    missing = [c.name for c in carriers if c not in fam]
                    if missing:
                        okc = False
                        why = f"`{norm(t.ast)}` excludes {missing}"
                ctx.check(okc, "R02.2", fn, x, f"{fn.short} :: aad member of every JSON serialization", "the JSON aad member is authenticated only for some JSON serialization classes: "
                          f"{why} - for the others it can be altered, removed or injected without detection", "isinstance(obj, BaseJSONEncryption)", construct=f"aad class coverage in {fn.short}")
    ctx.count("R02.2/aad-classes", m_, 1, "sites appending the JSON aad member to the AAD")
    ctx.count("R02.2/3", n, 8, "(entry, decrypt argument) slices")


# ----------------------------------------------------------------------------------------------- R02.4
def r02_4(ctx) -> None:
    eng = ctx.eng
    ds = impls(eng, ENC, "decrypt")
    ctx.count("R02.4", len(ds), 3, "JWEEncModel.decrypt implementations")
    for D in ds:
        pp = D.pos_params
        names = {p: p for p in pp}
        need = ["ciphertext", "tag", "cek", "iv", "aad"]
        if any(x not in pp for x in need):
            ctx.fail("R02.4", D, D.node, "decrypt() does not take (ciphertext, tag, cek, iv, aad)", construct="decrypt signature")
            continue
        cfg = cfg_of(D)
        calls = [s for s in eng.cg.calls_in(D) if isinstance(s.node, ast.Call)]
        attrs = {s.attr for s in calls if s.attr}
        if "decrypt_and_verify" in attrs or ("decrypt" in attrs and "decryptor" not in attrs):
            _oneshot(ctx, eng, D, cfg, calls)
        elif any(s.attr == "authenticate_additional_data" for s in calls):
            _aead_ctx(ctx, eng, D, cfg, calls)
        else:
            _cbc_hmac(ctx, eng, D, cfg, calls)
        # whatever the idiom: a failed authentication must leave through an exception - no handler may complete normally and
        # the function may not fall off its end (returning None as if it were plaintext)
        okx = True
        for h in [x for x in cfg.nodes if x.kind == "handler"]:
            if cfg.exit in cfg.reachable(h):
                ctx.fail("R02.4", D, h.ast, "an error caught during authenticated decryption (e.g. InvalidTag) can still complete normally: decrypt() would return "
                         "instead of raising", construct=f"handler in {D.short} completes normally")
                okx = False
        for n0, lab in cfg.normal_exits():
            if not (n0.kind == "stmt" and isinstance(n0.ast, ast.Return) and n0.ast.value is not None):
                ctx.fail("R02.4", D, n0.ast if n0.ast is not None else D.node, "decrypt() can complete without returning the verified decryption result (falls off its end / bare return)",
                         construct=f"fall-through exit of {D.short}")
                okx = False
        if okx:
            ctx.ok("R02.4", f"{D.short} :: exits", "every normal exit is an explicit return of the verified result; no handler completes normally")


def _oneshot(ctx, eng, D, cfg, calls) -> None:
    bare = [s for s in calls if s.attr == "decrypt" and not s.callees]
    if bare:
        ctx.fail("R02.4", D, bare[0].node, "content decryption without tag verification (bare decrypt)")
        return
    dv = [s for s in calls if s.attr == "decrypt_and_verify"]
    upd = [s for s in calls if s.attr == "update"]
    new = [s for s in calls if s.attr == "new"]
    ok = True
    if not dv or not upd or not new:
        ctx.fail("R02.4", D, D.node, "one-shot AEAD idiom incomplete (new / update(aad) / decrypt_and_verify)", construct="one-shot AEAD idiom")
        return
    c = dv[0].node
    a = list(c.args) + [k.value for k in c.keywords]
    if not (any(derives_from_param(eng, D, x, "ciphertext") for x in a) and any(norm(x) == "tag" for x in a)):
        ctx.fail("R02.4", D, c, "decrypt_and_verify is not given the received ciphertext and the unsliced tag")
        ok = False
    if not any(derives_from_param(eng, D, x, "aad") for x in upd[0].node.args):
        ctx.fail("R02.4", D, upd[0].node, "the AAD is not fed to the AEAD")
        ok = False
    na = list(new[0].node.args) + [k.value for k in new[0].node.keywords]
    if not (any(derives_from_param(eng, D, x, "cek") for x in na) and any(derives_from_param(eng, D, x, "iv") for x in na)):
        ctx.fail("R02.4", D, new[0].node, "the AEAD is not keyed with the CEK and the received IV")
        ok = False
    un, dn = cfg.node_of(upd[0].node), cfg.node_of(c)
    if un is None or dn is None or not cfg.must_pass(cfg.entry, dn, [un]):
        ctx.fail("R02.4", D, c, "the AAD is not authenticated before decrypt_and_verify")
        ok = False
    for r in cfg.returns():
        v = r.ast.value
        if v is None or not (derives_from_param(eng, D, v, "ciphertext")) or dn is None or not (cfg.must_pass(cfg.entry, r, [dn]) or v is c):
            ctx.fail("R02.4", D, r.ast, "a return of decrypt() is not the verified decryption result")
            ok = False
    if ok:
        ctx.ok("R02.4", D.short, "one-shot AEAD: new(cek, iv); update(aad) before decrypt_and_verify(ciphertext, tag); returns its result")


def _aead_ctx(ctx, eng, D, cfg, calls) -> None:
    ok = True
    mode = [s for s in calls if any(x.endswith(".GCM") for x in s.ext)]
    fin = [s for s in calls if s.attr in ("finalize", "finalize_with_tag")]
    aad = [s for s in calls if s.attr == "authenticate_additional_data"]
    upd = [s for s in calls if s.attr == "update"]
    ciph = [s for s in calls if any(x.endswith("ciphers.Cipher") for x in s.ext)]
    if not mode or not fin or not aad or not upd or not ciph:
        ctx.fail("R02.4", D, D.node, "AEAD context idiom incomplete (Cipher(AES(cek), GCM(iv, tag)) / authenticate_additional_data / update / finalize)",
                 construct="AEAD context idiom")
        return
    margs = list(mode[0].node.args) + [k.value for k in mode[0].node.keywords]
    tag_in_mode = any(norm(x) == "tag" for x in margs)
    tag_in_fin = any(s.attr == "finalize_with_tag" and any(norm(x) == "tag" for x in s.node.args) for s in fin)
    if not any(derives_from_param(eng, D, x, "iv") for x in margs):
        ctx.fail("R02.4", D, mode[0].node, "the received IV does not reach the cipher mode")
        ok = False
    if not (tag_in_mode or tag_in_fin):
        ctx.fail("R02.4", D, mode[0].node, "the received (unsliced) tag reaches neither GCM(iv, tag) nor finalize_with_tag(tag): "
                 "decryption would not verify the tag")
        ok = False
    cargs = list(ciph[0].node.args) + [k.value for k in ciph[0].node.keywords]
    if not any(derives_from_param(eng, D, x, "cek") for x in cargs):
        ctx.fail("R02.4", D, ciph[0].node, "the cipher is not keyed with the CEK")
        ok = False
    if not any(derives_from_param(eng, D, x, "aad") for x in aad[0].node.args):
        ctx.fail("R02.4", D, aad[0].node, "authenticate_additional_data is not given the AAD")
        ok = False
    if not any(derives_from_param(eng, D, x, "ciphertext") for s in upd for x in s.node.args):
        ctx.fail("R02.4", D, upd[0].node, "update() is not given the received ciphertext")
        ok = False
    an = cfg.node_of(aad[0].node)
    fnodes = [cfg.node_of(s.node) for s in fin]
    for fnode in fnodes:
        if an is None or fnode is None or not cfg.must_pass(cfg.entry, fnode, [an]):
            ctx.fail("R02.4", D, fin[0].node, "finalize() can run without the AAD having been authenticated")
            ok = False
    for r in cfg.returns():
        if not any(fnode is not None and (fnode is r or cfg.must_pass(cfg.entry, r, [fnode])) for fnode in fnodes):
            ctx.fail("R02.4", D, r.ast, "decrypt() can return without finalize() (the tag check)")
            ok = False
    if ok:
        ctx.ok("R02.4", D.short, "AEAD context: tag and IV into the mode, AAD authenticated before finalize, finalize before every return")


def _cbc_hmac(ctx, eng, D, cfg, calls) -> None:
    gate = None
    for t in cfg.nodes:
        if t.kind != "test" or t.ast is None:
            continue
        e = t.ast
        a = b = None
        mismatch_label = None
        if isinstance(e, ast.Call):
            s = eng.cg.site_of.get(id(e))
            if s is not None and any(x.endswith("compare_digest") for x in s.ext) and len(e.args) == 2:
                a, b = e.args
                mismatch_label = "false"
        elif isinstance(e, ast.Compare) and len(e.ops) == 1 and isinstance(e.ops[0], (ast.Eq, ast.NotEq)):
            a, b = e.left, e.comparators[0]
            mismatch_label = "false" if isinstance(e.ops[0], ast.Eq) else "true"
        if a is None:
            continue
        sides = [a, b]
        tag_side = [x for x in sides if norm(x) == "tag"]
        if not tag_side:
            if any(derives_from_param(eng, D, x, "tag") for x in sides):
                ctx.fail("R02.4", D, e, "the authentication tag is compared after slicing / transformation, not as received "
                         "(a truncated tag could match)")
                return
            continue
        other = sides[1] if sides[0] is tag_side[0] else sides[0]
        gate = (t, other, mismatch_label)
    if gate is None:
        ctx.fail("R02.4", D, D.node, "no comparison of the received tag with a MAC computed over (aad, iv, ciphertext) before decryption",
                 construct="CBC-HMAC tag gate")
        return
    t, other, mm = gate
    ok = True
    if can_reach_exit(cfg, succ_by_label(cfg, t, mm)):
        ctx.fail("R02.4", D, t.ast, "a tag mismatch can still reach a normal return")
        ok = False
    # the computed side: all of ciphertext, aad, iv and the key must flow into it, through a keyed MAC
    res = eng.flow.slice(D, other, eng.cg.reachable([D]), [D])
    pn = {leaf_param_name(l) for l in res.leaves if l.kind == "param" and l.name.startswith(D.short + ".")}
    missing = [x for x in ("ciphertext", "aad", "iv", "cek") if x not in pn]
    if missing:
        ctx.fail("R02.4", D, t.ast, f"the computed tag does not cover {missing}")
        ok = False
    if "tag" in pn or derives_from_param(eng, D, other, "tag"):
        ctx.fail("R02.4", D, t.ast, "the computed side of the comparison depends on the received tag")
        ok = False
    if not any(x.startswith("hmac.") for x in res.call_names()):
        ctx.fail("R02.4", D, t.ast, "no keyed MAC (hmac) on the computed side")
        ok = False
    for s in calls:
        if s.attr in ("decryptor",):
            dn = cfg.node_of(s.node)
            if dn is None or not cfg.dominates(t, dn):
                ctx.fail("R02.4", D, s.node, "CBC decryption can start before the tag was verified")
                ok = False
    for r in cfg.returns():
        if not cfg.dominates(t, r):
            ctx.fail("R02.4", D, r.ast, "decrypt() can return without the tag comparison")
            ok = False
    if ok:
        ctx.ok("R02.4", D.short, "CBC-HMAC: unsliced tag compared with HMAC(aad, iv, ciphertext; key half) before decryptor() and every return")


# ----------------------------------------------------------------------------------------------- R02.5
def r02_5(ctx) -> None:
    eng = ctx.eng
    encc = eng.prog.cls(ENC)
    chk = impls(eng, ENC, "check_iv", include_abstract=True)
    if not chk:
        raise AnalysisError("JWEEncModel.check_iv vanished")
    n = 0
    for C in chk:
        cfg = cfg_of(C)
        p_iv = C.pos_params[1]
        good = False
        for t in cfg.nodes:
            if t.kind == "test" and isinstance(t.ast, ast.Compare) and len(t.ast.ops) == 1:
                txt = {norm(t.ast.left), norm(t.ast.comparators[0])}
                if txt == {f"len({p_iv}) * 8", f"{C.self_name}.iv_size"} or txt == {f"len({p_iv})", f"{C.self_name}.iv_size // 8"}:
                    lab = "true" if isinstance(t.ast.ops[0], ast.NotEq) else ("false" if isinstance(t.ast.ops[0], ast.Eq) else None)
                    if lab and not can_reach_exit(cfg, succ_by_label(cfg, t, lab)) and cfg.dominates(t, cfg.exit):
                        good = True
        n += 1
        ctx.check(good, "R02.5", C, C.node, C.short, "check_iv does not raise on every IV whose bit length differs from iv_size",
                  "raises iff len(iv)*8 != self.iv_size", construct="check_iv condition")
    for E in entries(eng, JWE_CONSUME):
        scope = scope_of(eng, E)
        for s in _dec_sites(eng, scope):
            fn = s.fn
            cfg = cfg_of(fn)
            dn = cfg.node_of(s.node)
            iv = _arg(eng, s, "iv")
            gates = []
            for c2 in eng.cg.calls_in(fn):
                if isinstance(c2.node, ast.Call) and c2.callees and all(c in chk for c in c2.callees) and c2.node.args \
                        and iv is not None and norm(c2.node.args[0]) == norm(iv):
                    g = cfg.node_of(c2.node)
                    if g is not None:
                        gates.append(g)
            n += 1
            ok = dn is not None and bool(gates) and cfg.must_pass(cfg.entry, dn, gates)
            ctx.check(ok, "R02.5", fn, s.node, f"{E.short} -> {fn.short}: check_iv before decrypt",
                      "the content decryption can run without enc.check_iv(iv) on the same iv", "check_iv(iv) dominates enc.decrypt",
                      construct=f"check_iv before {norm(s.node)[:50]} [{E.short}]")
    ctx.count("R02.5", n, 3, "check_iv obligations")


# ----------------------------------------------------------------------------------------------- R02.6
def r02_6(ctx) -> None:
    eng = ctx.eng
    km = eng.prog.cls("rfc7516.models:KeyManagement")
    dm_props = [f for f in eng.prog.implementations(km, "direct_mode") if f.is_property]
    n = 0
    scope: Set[FunctionInfo] = set()
    for E in entries(eng, JWE_CONSUME):
        scope.update(scope_of(eng, E))
    for fn in scope:
        cfg = None
        for s in eng.cg.calls_in(fn):
            if s.kind != "property" or not any(c in dm_props for c in s.callees):
                continue
            cfg = cfg or cfg_of(fn)
            tn = cfg.node_of(s.node)
            if tn is None or tn.kind != "test" or tn.ast is not s.node:
                continue
            # crypto calls only reachable through the direct-mode branch
            crypto = []
            for c2 in eng.cg.calls_in(fn):
                if isinstance(c2.node, ast.Call) and c2.attr in ("compute_cek", "decrypt_agreed_upon_key", "decrypt_agreed_upon_key_with_tag") \
                        and c2.callees:
                    cn = cfg.node_of(c2.node)
                    if cn is None:
                        continue
                    cut = cfg.reachable(cfg.entry, edge_filter=lambda a, b, lab, _t=tn: not (a is _t and lab == "true"))
                    if cn not in cut:
                        crypto.append((c2, cn))
            rejects = []
            for t in cfg.nodes:
                if t.kind == "test" and isinstance(t.ast, ast.Attribute) and t.ast.attr == "encrypted_key":
                    if not can_reach_exit(cfg, succ_by_label(cfg, t, "true")):
                        rejects.append(t)
            for c2, cn in crypto:
                n += 1
                ok = bool(rejects) and cfg.must_pass(cfg.entry, cn, rejects)
                ctx.check(ok, "R02.6", fn, c2.node, f"{fn.short} :: {norm(c2.node)[:50]}",
                          "in direct mode the CEK is computed although a non-empty JWE Encrypted Key was not refused",
                          "a raise guarded by recipient.encrypted_key dominates", construct=f"direct-mode guard before {norm(c2.node)[:60]}")
    # path form of the same obligation: assuming direct mode (every `direct_mode` test taken true), no path through the CEK
    # recovery completes without having passed the non-empty-encrypted-key rejection - however the branches are arranged
    for fn in scope:
        cfg = cfg_of(fn)
        dts = []
        for s in eng.cg.calls_in(fn):
            if s.kind == "property" and any(c in dm_props for c in s.callees):
                tn = cfg.node_of(s.node)
                if tn is not None and tn.kind == "test" and tn.ast is s.node:
                    dts.append(tn)
        if not dts or not any(isinstance(c2.node, ast.Call) and c2.attr in ("compute_cek", "decrypt_agreed_upon_key") for c2 in eng.cg.calls_in(fn)):
            continue
        rejects = [t for t in cfg.nodes if t.kind == "test" and isinstance(t.ast, ast.Attribute) and t.ast.attr == "encrypted_key" and not can_reach_exit(cfg, succ_by_label(cfg, t, "true"))]
        n += 1
        ok = bool(rejects) and cfg.must_pass(cfg.entry, cfg.exit, rejects, edge_filter=lambda a, b, lab, _d=dts: not (a in _d and lab == "false"))
        ctx.check(ok, "R02.6", fn, fn.node, f"{fn.short} :: direct mode always refuses a non-empty encrypted key", "with a direct-mode algorithm (dir, ECDH-ES / ECDH-1PU direct key agreement) the CEK "
                  "can be recovered on a path that never refuses a non-empty JWE Encrypted Key", "if recipient.encrypted_key: raise on every direct-mode path", construct=f"direct-mode paths of {fn.short}")
    ctx.count("R02.6", n, 2, "direct-mode CEK computations on the decrypt side")


# ----------------------------------------------------------------------------------------------- R02.7
def r02_7(ctx) -> None:
    eng = ctx.eng
    P = eng.prog
    seen: Set[int] = set()
    n = 0
    for E in entries(eng, JWE_CONSUME):
        scope = scope_of(eng, E)
        for s in _dec_sites(eng, scope):
            if id(s) in seen:
                continue
            seen.add(id(s))
            fn = s.fn
            cfg = cfg_of(fn)
            dn = cfg.node_of(s.node)
            cek = _arg(eng, s, "cek")
            recv = s.node.func.value  # type: ignore[union-attr]
            assert cek is not None and dn is not None
            # (c) length guard
            n += 1
            okc = False
            for t in cfg.nodes:
                if t.kind == "test" and isinstance(t.ast, ast.Compare) and len(t.ast.ops) == 1 and isinstance(t.ast.ops[0], (ast.NotEq, ast.Eq)):
                    txt = {norm(t.ast.left), norm(t.ast.comparators[0])}
                    if txt == {f"len({norm(cek)}) * 8", f"{norm(recv)}.cek_size"}:
                        lab = "true" if isinstance(t.ast.ops[0], ast.NotEq) else "false"
                        if not can_reach_exit(cfg, succ_by_label(cfg, t, lab)) and cfg.must_pass(cfg.entry, dn, [t]):
                            okc = True
            ctx.check(okc, "R02.7", fn, s.node, f"{fn.short} :: CEK length guard", "the CEK length is not checked against enc.cek_size "
                      "before the content decryption", "raise iff len(cek)*8 != enc.cek_size dominates enc.decrypt",
                      construct="CEK length guard before enc.decrypt")
            # (a)(b) single CEK out of a collection
            if not isinstance(cek, ast.Name):
                raise AnalysisError("R02.7: CEK argument is not a local")
            defs = [d for d in eng.flow._defs(fn).get(cek.id, []) if d[0] == "assign"]
            pops = [d[1] for d in defs if isinstance(d[1], ast.Call) and isinstance(d[1].func, ast.Attribute) and d[1].func.attr == "pop"
                    and isinstance(d[1].func.value, ast.Name)]
            coll = pops[0].func.value.id if pops else None  # type: ignore[union-attr]
            if coll is None:
                if _keep_first_idiom(ctx, eng, fn, cfg, cek.id, dn):
                    n += 3
                    okd = _recipient_handler_generic(ctx, eng, fn, cfg)
                    if okd:
                        ctx.ok("R02.7", f"{fn.short} :: recipient errors", "every handler re-raises when registry.verify_all_recipients")
                    continue
                raise AnalysisError("R02.7: cannot interpret how the single CEK is chosen (expected <collection>.pop() or keep-first-and-compare)")
            pop_node = cfg.node_of(pops[0])
            empty_ok = multi_ok = False
            for t in cfg.nodes:
                if t.kind != "test" or t.ast is None:
                    continue
                if norm(t.ast) == coll and not can_reach_exit(cfg, succ_by_label(cfg, t, "false")) and cfg.must_pass(cfg.entry, pop_node, [t]):
                    empty_ok = True
                cmpx = _len_vs_const(t.ast, f"len({coll})")
                if cmpx is not None:
                    op, c = cmpx
                    if (isinstance(op, ast.Gt) and c == 1) or (isinstance(op, ast.GtE) and c == 2) or (isinstance(op, ast.NotEq) and c == 1):
                        if not can_reach_exit(cfg, succ_by_label(cfg, t, "true")) and cfg.must_pass(cfg.entry, pop_node, [t]):
                            multi_ok = True
                    if isinstance(op, ast.Eq) and c == 0 and not can_reach_exit(cfg, succ_by_label(cfg, t, "true")):
                        empty_ok = True
            n += 2
            ctx.check(empty_ok, "R02.7", fn, pops[0], f"{fn.short} :: at least one recipient yields a CEK",
                      "decryption proceeds although no recipient yielded a CEK", f"raise when `{coll}` is empty", construct="empty CEK set guard")
            ctx.check(multi_ok, "R02.7", fn, pops[0], f"{fn.short} :: all recipients yield the same CEK",
                      "recipients yielding different CEKs are not refused", f"raise when len({coll}) > 1", construct="multiple CEK guard")
            # collection must be a set (equal CEKs collapse) fed by the per-recipient computation
            # (d) per-recipient errors are re-raised unless the caller opted out
            n += 1
            okd = _recipient_handler(ctx, eng, fn, cfg, coll)
            if okd:
                ctx.ok("R02.7", f"{fn.short} :: recipient errors", "every handler re-raises when registry.verify_all_recipients")
    # default of verify_all_recipients
    reg = P.cls("rfc7516.registry:JWERegistry")
    init = reg.lookup("__init__")
    d = init.param_default("verify_all_recipients") if init is not None else None
    n += 1
    ctx.check(d is not None and is_const(d, True), "R02.7", init, d, "JWERegistry.__init__ :: verify_all_recipients default",
              "verify_all_recipients does not default to True", "default folds to True", construct="verify_all_recipients default")
    # and it is stored unchanged
    if init is not None:
        st = [x for x in fn_nodes(init) if isinstance(x, ast.Assign) and any(isinstance(t, ast.Attribute) and t.attr == "verify_all_recipients" for t in x.targets)]
        ctx.check(len(st) == 1 and norm(st[0].value) == "verify_all_recipients", "R02.7", init, st[0] if st else None,
                  "JWERegistry.__init__ :: stores the flag", "verify_all_recipients is not stored as given", "self.verify_all_recipients = verify_all_recipients",
                  construct="verify_all_recipients store")
    ctx.count("R02.7", n, 5, "CEK selection obligations")


def _len_vs_const(e, txt):
    from .common import len_vs_const
    return len_vs_const(e, lambda x: x == txt)


def _keep_first_idiom(ctx, eng, fn, cfg, var: str, dn) -> bool:
    """alternative to the set idiom: the first recipient's CEK is kept in `var`, every later one is compared with it.
    Returns False when the function does not have this shape at all (caller reports ANALYSIS-ERROR)."""
    defs = [d for d in eng.flow._defs(fn).get(var, []) if d[0] == "assign"]
    inits = [d for d in defs if isinstance(d[1], ast.Constant) and d[1].value in (b"", None)]
    takes = [d for d in defs if isinstance(d[1], ast.Name)]
    if len(inits) != 1 or len(takes) != 1:
        return False
    x = takes[0][1].id
    loops = [l for l in cfg.nodes if l.kind == "loop" and any(n is takes[0][1] for n in ast.walk(l.ast))]
    if not loops:
        return False
    L = loops[-1]

    def atom(e):
        t = norm(e)
        if t == var:
            return ("has", True)
        if isinstance(e, ast.Call) and norm(e.func).endswith("compare_digest") and len(e.args) == 2 and {norm(e.args[0]), norm(e.args[1])} == {x, var}:
            return ("eq", True)
        if isinstance(e, ast.Compare) and len(e.ops) == 1 and {norm(e.left), norm(e.comparators[0])} == {x, var} and isinstance(e.ops[0], (ast.Eq, ast.NotEq)):
            return ("eq", isinstance(e.ops[0], ast.Eq))
        return None
    # paths of one loop iteration
    bad_paths = []
    stack = [(s0, {}, frozenset()) for s0 in succ_by_label(cfg, L, "iter")]
    seen_guard = 0
    while stack:
        n0, lits, seen = stack.pop()
        seen_guard += 1
        if seen_guard > 50000:
            raise AnalysisError("R02.7: path enumeration exploded")
        if n0 is L or n0 is cfg.exit:
            if lits.get("has") is True and lits.get("eq") is not True:
                bad_paths.append(dict(lits))
            continue
        if n0.idx in seen or n0 is cfg.raise_exit:
            continue
        for s1, lab in cfg.succ[n0]:
            l2 = lits
            if n0.kind == "test" and lab in ("true", "false"):
                a = atom(n0.ast)
                if a is not None:
                    val = (lab == "true") == a[1]
                    if a[0] in lits and lits[a[0]] != val:
                        continue
                    l2 = dict(lits)
                    l2[a[0]] = val
            stack.append((s1, l2, seen | {n0.idx}))
    ctx.check(not bad_paths, "R02.7", fn, L.ast, f"{fn.short} :: all recipients yield the same CEK", "a recipient whose CEK differs from the one already kept can be accepted: some path of the "
              f"recipient loop with a CEK already present completes without the equality of the two CEKs being established ({bad_paths[:2]})",
              "every continuing path with a kept CEK passed an equality test of the two CEKs", construct="multiple CEK guard")
    # at least one recipient: `if not cek: raise` dominates the content decryption
    empty_ok = False
    for t in cfg.nodes:
        if t.kind == "test" and norm(t.ast) == var and not can_reach_exit(cfg, succ_by_label(cfg, t, "false")) and any(x is t.ast for x in ast.walk(fn.node)) \
                and not any(x is t.ast for x in ast.walk(L.ast)):
            if cfg.must_pass(cfg.entry, dn, [t]):
                empty_ok = True
    ctx.check(empty_ok, "R02.7", fn, fn.node, f"{fn.short} :: at least one recipient yields a CEK", "decryption proceeds although no recipient yielded a CEK", f"raise when `{var}` is still empty",
              construct="empty CEK set guard")
    return True


def _recipient_handler_generic(ctx, eng, fn, cfg) -> bool:
    """every handler around a CEK-recovery call leaves normally only when registry.verify_all_recipients is falsy"""
    ok = True
    for tr in [n for n in ast.walk(fn.node) if isinstance(n, ast.Try)]:
        if not any(isinstance(x, ast.Call) and (eng.cg.site_of.get(id(x)) is not None) and any(c.name == "decrypt_recipient" or "decrypt" in c.name for c in eng.cg.site_of[id(x)].callees)
                   for b in tr.body for x in ast.walk(b)):
            continue
        for h in tr.handlers:
            hn = [n for n in cfg.nodes if n.kind == "handler" and n.ast is h]
            if not hn:
                continue
            gates = [t for t in cfg.nodes if t.kind == "test" and isinstance(t.ast, ast.Attribute) and t.ast.attr == "verify_all_recipients" and any(t.ast is x for x in ast.walk(h))
                     and all(_only_raises(cfg, s, h) for s in succ_by_label(cfg, t, "true"))]
            inside = {id(x) for x in ast.walk(h)}
            outside = [n for n in cfg.nodes if n.ast is not None and id(n.ast) not in inside and n.kind in ("stmt", "test", "loop")]
            reach = cfg.reachable(hn[0], gates)
            if any(n in reach for n in outside) or cfg.exit in reach:
                ctx.fail("R02.7", fn, h, "an error while recovering a recipient's CEK is swallowed even when every recipient must verify (verify_all_recipients)",
                         construct="recipient error handler")
                ok = False
    return ok


def _recipient_handler(ctx, eng, fn, cfg, coll: str) -> bool:
    """the statement adding to the CEK collection sits in a try; every handler leaves normally only when
    registry.verify_all_recipients is falsy"""
    adds = [x for x in fn_nodes(fn) if isinstance(x, ast.Call) and isinstance(x.func, ast.Attribute) and x.func.attr in ("add", "append")
            and norm(x.func.value) == coll]
    if not adds:
        raise AnalysisError("R02.7: no statement adds to the CEK collection")
    ok = True
    for a in adds:
        cur = eng.prog.parent(a)
        tr = None
        while cur is not None and not isinstance(cur, (ast.FunctionDef, ast.AsyncFunctionDef)):
            if isinstance(cur, ast.Try):
                tr = cur
                break
            cur = eng.prog.parent(cur)
        if tr is None:
            continue  # no handler at all: every error propagates
        for h in tr.handlers:
            hn = [n for n in cfg.nodes if n.kind == "handler" and n.ast is h]
            if not hn:
                continue
            gates = []
            for t in cfg.nodes:
                if t.kind == "test" and isinstance(t.ast, ast.Attribute) and t.ast.attr == "verify_all_recipients" \
                        and any(t.ast is x for x in ast.walk(h)):
                    if all(_only_raises(cfg, s, h) for s in succ_by_label(cfg, t, "true")):
                        gates.append(t)
            # leaving the handler normally = reaching any node outside the handler body
            inside = {id(x) for x in ast.walk(h)}
            outside = [n for n in cfg.nodes if n.ast is not None and id(n.ast) not in inside and n.kind in ("stmt", "test", "loop")]
            reach = cfg.reachable(hn[0], gates)
            leaks = [n for n in outside if n in reach]
            if leaks or cfg.exit in reach:
                ctx.fail("R02.7", fn, h, "an error while recovering a recipient's CEK is swallowed even when every recipient must verify "
                         "(verify_all_recipients)", construct="recipient error handler " + norm(h.type) if h.type is not None else "bare except")
                ok = False
    return ok


def _only_raises(cfg, start: CNode, h: ast.ExceptHandler) -> bool:
    reach = cfg.reachable(start, follow_exc=True)
    if cfg.exit in reach:
        return False
    inside = {id(x) for x in ast.walk(h)}
    for n in reach:
        if n.ast is not None and id(n.ast) not in inside and n.kind in ("stmt", "test", "loop") :
            return False
    return True


# ----------------------------------------------------------------------------------------------- R02.8
def r02_8(ctx) -> None:
    eng = ctx.eng
    P = eng.prog
    ck = P.cls("rfc7517.models:CurveKey")
    ex = eng.prog.implementations(ck, "exchange_derive_key")
    ctx.count("R02.8", len(ex), 2, "exchange_derive_key implementations")
    for X in ex:
        cfg = cfg_of(X)
        pk = X.pos_params[1]
        exch = [s for s in eng.cg.calls_in(X) if isinstance(s.node, ast.Call) and s.attr == "exchange" and not s.callees]
        if not exch:
            ctx.fail("R02.8", X, X.node, "no key exchange primitive found", construct="exchange call")
            continue
        for s in exch:
            cn = cfg.node_of(s.node)
            guards = []
            for t in cfg.nodes:
                if t.kind != "test" or t.ast is None:
                    continue
                e = t.ast
                if isinstance(e, ast.Compare) and len(e.ops) == 1 and isinstance(e.ops[0], ast.Eq):
                    a, b = norm(e.left), norm(e.comparators[0])
                    if {a, b} == {f"{X.self_name}.curve_name", f"{pk}.curve_name"}:
                        guards.append((t, "true"))
                if isinstance(e, ast.Call) and isinstance(e.func, ast.Name) and e.func.id == "isinstance":
                    guards.append((t, "true"))
            if X.cls is not None and X.cls.name == "ECKey":
                g = [t for t, lab in guards if isinstance(t.ast, ast.Compare)]
                ok = bool(g) and cn is not None and all(cn not in cfg.reachable(cfg.entry, edge_filter=lambda a, b, lab, _t=t: not (a is _t and lab == "true")) for t in g[:1])
                ctx.check(ok, "R02.8", X, s.node, f"{X.short} :: {norm(s.node)[:40]}", "ECDH exchange is not guarded by equality of the two curve names",
                          "exchange only on the true edge of self.curve_name == key.curve_name", construct="EC exchange curve guard")
            else:
                # paired isinstance(private, Xn) and isinstance(pub, Xn) on the same curve family
                iso = [t for t, lab in guards if isinstance(t.ast, ast.Call)]
                doms = [t for t in iso if cn is not None and cn not in cfg.reachable(cfg.entry, edge_filter=lambda a, b, lab, _t=t: not (a is _t and lab == "true"))]
                fams = []
                for t in doms:
                    c = t.ast
                    cls_txt = norm(c.args[1]) if len(c.args) > 1 else ""
                    fams.append(("X25519" if "X25519" in cls_txt else "X448" if "X448" in cls_txt else cls_txt,
                                 "priv" if "Private" in cls_txt else "pub"))
                ok = len(doms) >= 2 and len({f for f, _ in fams}) == 1 and {k for _, k in fams} == {"priv", "pub"}
                ctx.check(ok, "R02.8", X, s.node, f"{X.short} :: {norm(s.node)[:40]} @{s.node.lineno - X.node.lineno}",
                          "the OKP exchange is not guarded by a same-curve isinstance pair (private and peer key)",
                          f"guards {fams}", construct=f"OKP exchange guard #{exch.index(s)}")
        # the function's other exits raise InvalidExchangeKeyError (no silent fallthrough)
        for lab_n, lab in cfg.normal_exits():
            if lab == "fall":
                ctx.fail("R02.8", X, X.node, "exchange_derive_key can fall through without a shared secret or an error", construct="fallthrough")
    # validating epk import
    n = 0
    ka = P.cls("rfc7516.models:JWEKeyAgreement")
    imp = P.cls("rfc7517.models:BaseKey").lookup("import_key")
    for nm in ("decrypt_agreed_upon_key", "decrypt_agreed_upon_key_with_tag"):
        for Dm in eng.prog.implementations(ka, nm):
            sub = eng.cg.reachable([Dm])
            for fn in sub:
                if fn.cls is None or ka not in fn.cls.mro:
                    continue
                for node in fn_nodes(fn):
                    if isinstance(node, ast.Subscript) and const_value(node.slice) == "epk" and isinstance(node.ctx, ast.Load):
                        par = P.parent(node)
                        n += 1
                        s = eng.cg.site_of.get(id(par)) if isinstance(par, ast.Call) else None
                        ok = s is not None and imp in s.callees
                        ctx.check(ok, "R02.8", fn, node, f"{fn.short} :: {norm(par)[:50] if par is not None else ''}",
                                  "the received epk is used other than through the validating <Key>.import_key(...)",
                                  "headers['epk'] only flows into import_key (validates members, point and curve)", construct="epk use " + norm(par)[:60])
    ctx.count("R02.8/epk", n, 2, "uses of headers['epk'] on the decrypt side")


# ----------------------------------------------------------------------------------------------- R02.9
def r02_9(ctx) -> None:
    eng = ctx.eng
    P = eng.prog
    km = P.cls("rfc7516.models:KeyManagement")
    n = 0
    for nm in ("decrypt_cek", "decrypt_agreed_upon_key", "decrypt_agreed_upon_key_with_tag", "compute_cek"):
        for M in eng.prog.implementations(km, nm):
            if "recipient" not in M.params:
                continue
            fns = [M] + [f for f in eng.cg.reachable([M]) if f is not M and f.cls is not None and f.cls in M.cls.mro and "recipient" in f.params]
            for fn in fns:
                for s in eng.cg.calls_in(fn):
                    if not isinstance(s.node, ast.Call) or s.attr not in ("get_op_key", "exchange_derive_key", "import_key"):
                        continue
                    recv = s.node.func.value  # type: ignore[union-attr]
                    n += 1
                    ok = derives_from_param(eng, fn, recv, "recipient") and fn.self_name not in {x.id for x in ast.walk(recv) if isinstance(x, ast.Name)}
                    ctx.check(ok, "R02.9", fn, s.node, f"{fn.short} :: {norm(s.node)[:50]}", "key material used to recover the CEK does not come from "
                              "the recipient being processed", "receiver derives from the `recipient` parameter")
                for node in fn_nodes(fn):
                    if isinstance(node, ast.Attribute) and node.attr == "raw_value" and isinstance(node.ctx, ast.Load):
                        n += 1
                        ok = derives_from_param(eng, fn, node.value, "recipient")
                        ctx.check(ok, "R02.9", fn, node, f"{fn.short} :: {norm(node)}", "raw key value not taken from the recipient being processed",
                                  "derives from `recipient`")
    ctx.count("R02.9", n, 10, "key-material accesses in decrypt-side key management")


def run(ctx) -> None:
    from .c20 import r20_1 as _r20_1
    from ..effects import Effects as _Fx
    from .common import in_family as _inf
    ctx.guard_as("R02.14", _r20_1, _Fx(ctx.eng.prog, ctx.eng.cg), {f for f in ctx.eng.prog.all_functions() if _inf(f, "jwe")})  # what is decrypted is this message's own segments: no class-level / shared containers
    from .c17 import r17_2_5 as _r17_2_5
    ctx.guard_as("R02.15", _r17_2_5)  # "returns only the authenticated plaintext": all of it or an error, never a prefix
    from .c08 import r08_2_produce as _r08_2p
    ctx.guard_as("R02.17", _r08_2p)  # what is authenticated is protected '.' BASE64URL(aad): without the separator two different (header, aad) pairs share one AAD
    from .common import syntax_dispatch
    ctx.guard(syntax_dispatch, "R02.16", "rfc7516.json:extract_general_json", "rfc7516.json:extract_flattened_json", "recipients")  # every recipient entry present is looked at
    from .common import forwarding_discipline
    ctx.guard(forwarding_discipline, "R02.12", ['value', 'recipient', 'enc', 'tag', 'cek', 'aad', 'iv', 'ciphertext', 'ek', 'private_key', 'sender_key', 'verify_all_recipients'], 77, "jwe")  # arguments are handed on under their own name (generic routing rule, rules/common.py)
    ctx.guard(r02_1)
    ctx.guard(r02_2_3)
    ctx.guard(r02_4)
    ctx.guard(r02_5)
    ctx.guard(r02_6)
    ctx.guard(r02_7)
    ctx.guard(r02_8)
    ctx.guard(r02_9)
    # "a wrong sender / recipient key yields an error": the agreed secret is computed from the keys of this recipient only (C08's Z rules)
    from .c08 import r08_4
    ctx.guard_as("R02.10", r08_4)
    from .c08 import r08_8
    from .c06 import r06_4
    ctx.guard_as("R02.11", r08_8)  # "any change to the encrypted key yields an error": key-wrap primitive shapes (GCM-KW finalises with the tag)
    ctx.guard_as("R02.11", r06_4)
    from .c04 import r04_2
    ctx.guard_as("R02.13", r04_2)  # "the received protected header": zip is honoured from the integrity-protected position only  # "a wrong recipient key yields an error": dir uses the whole key of exactly the CEK size
    ctx.assume("AEAD soundness and point validation inside pyca/cryptography and pycryptodome")
    ctx.assume("GCM tags of a length other than 16 octets are refused by pyca (ValueError), probed in DESIGN B7")
