"""C04 - JWE encrypt-then-decrypt round trip (claimed for four structural clauses only).

R04.1 forbidden combinations are refused at encryption time      R04.2 zip mirror (compress before encrypt / decompress after decrypt, same condition)
R04.7 compact round trip as a term identity: decrypt receives exactly encrypt's (C, T), iv and aad
R04.6 DEF framing and completion gate (the C17 rules R17.2-R17.5 / R17.3 run as a clause of C04)
R04.5 AAD predicate mirror (encrypt / JSON writer / decrypt)
R04.3 writer / reader member agreement of the three serializations R04.4 header merge order and add_header placement
"""
from __future__ import annotations
import ast
from typing import Dict, List, Optional, Set

from ..program import AnalysisError, FunctionInfo, fn_nodes, norm
from ..cfg import cfg_of
from .common import in_family, isinstance_excludes, len_vs_const, misguarded_member_stores, resolve_all, find_local, JWE_CONSUME, JWE_PRODUCE, can_reach_exit, const_value, entries, impls, is_const, scope_of, sites_calling, succ_by_label
from .common import inconclusive_on_error as _ioe

RFC7516_TOP = {"protected", "unprotected", "iv", "aad", "ciphertext", "tag"}
RFC7516_RCP = {"header", "encrypted_key"}


def r04_1(ctx) -> None:
    eng = ctx.eng
    P = eng.prog
    scope: Set[FunctionInfo] = set()
    for e in entries(eng, JWE_PRODUCE):
        scope.update(scope_of(eng, e))
    km = P.cls("rfc7516.models:KeyManagement")
    dm_props = [f for f in eng.prog.implementations(km, "direct_mode") if f.is_property]
    n = 0
    for fn in sorted(scope, key=lambda f: f.qualname):
        cfg = None
        for s in eng.cg.calls_in(fn):
            if s.kind != "property" or not any(c in dm_props for c in s.callees):
                continue
            cfg = cfg or cfg_of(fn)
            tn = cfg.node_of(s.node)
            if tn is None or tn.kind != "test" or tn.ast is not s.node:
                continue
            # calls only reachable through the direct-mode edge
            direct_calls = []
            for c2 in eng.cg.calls_in(fn):
                cn = cfg.node_of(c2.node)
                if isinstance(c2.node, ast.Call) and c2.callees and c2.kind != "ctor" and cn is not None and cn is not tn:
                    cut = cfg.reachable(cfg.entry, edge_filter=lambda a, b, lab, _t=tn: not (a is _t and lab == "true"))
                    if cn not in cut:
                        direct_calls.append((c2, cn))
            rejects = []
            for t in cfg.nodes:
                cmpx = len_vs_const(t.ast, lambda x: x.startswith("len(") and "recipients" in x) if t.kind == "test" else None
                if cmpx is not None:
                    op, c = cmpx
                    lab = None
                    if (isinstance(op, ast.Gt) and c == 1) or (isinstance(op, ast.GtE) and c == 2) or (isinstance(op, ast.NotEq) and c == 1):
                        lab = "true"
                    elif (isinstance(op, ast.Eq) and c == 1) or (isinstance(op, ast.LtE) and c == 1):
                        lab = "false"
                    if lab and not can_reach_exit(cfg, succ_by_label(cfg, t, lab)) and _raises(cfg, succ_by_label(cfg, t, lab), "ConflictAlgorithmError"):
                        rejects.append(t)
            for c2, cn in direct_calls:
                n += 1
                ok = bool(rejects) and cfg.must_pass(cfg.entry, cn, rejects)
                ctx.check(ok, "R04.1", fn, c2.node, f"{fn.short} :: {norm(c2.node)[:50]}", "a direct-mode algorithm computes the CEK although several recipients were given "
                          "(the token could not be decrypted by all of them): no ConflictAlgorithmError guard dominates", "raise ConflictAlgorithmError iff direct mode and len(recipients) > 1",
                          construct=f"direct-mode multi-recipient guard before {norm(c2.node)[:50]}")
    ctx.count("R04.1", n, 1, "direct-mode CEK computations on the encrypt side")
    # ECDH-1PU with key wrapping needs a CBC-HMAC content encryption
    pu = P.cls("drafts.jwe_ecdh_1pu:ECDH1PUAlgModel")
    ce = pu.methods.get("_check_enc")
    if ce is None:
        raise AnalysisError("ECDH1PUAlgModel._check_enc vanished")
    cfg = cfg_of(ce)
    ep = ce.pos_params[1]
    tests = {norm(t.ast): t for t in cfg.nodes if t.kind == "test"}
    kw = tests.get(f"{ce.self_name}.key_wrapping")
    iso = [t for t in cfg.nodes if t.kind == "test" and isinstance(t.ast, ast.Call) and norm(t.ast.func) == "isinstance" and norm(t.ast.args[0]) == ep and norm(t.ast.args[1]) == "CBCHS2EncModel"]
    ok = kw is not None and bool(iso)
    if ok:
        it = iso[0]
        ok = it in [x for s0 in succ_by_label(cfg, kw, "true") for x in cfg.reachable(s0)] and not can_reach_exit(cfg, succ_by_label(cfg, it, "false")) \
            and can_reach_exit(cfg, succ_by_label(cfg, kw, "false")) and can_reach_exit(cfg, succ_by_label(cfg, it, "true"))
    ctx.check(ok, "R04.1", ce, ce.node, ce.short, "_check_enc does not raise exactly when key wrapping is used with a content encryption that is not AES-CBC-HMAC",
              "raise iff self.key_wrapping and not isinstance(enc, CBCHS2EncModel)", construct="_check_enc condition")
    for m in ("encrypt_agreed_upon_key", "encrypt_agreed_upon_key_with_tag"):
        fn = pu.methods.get(m)
        if fn is None:
            raise AnalysisError(f"ECDH1PUAlgModel.{m} vanished")

        def gated(f_, encp, depth=0) -> bool:
            """every repo call f_ makes is preceded by _check_enc(<enc>) - in f_ itself, or first thing in the one callee that is handed <enc>"""
            cfg_ = cfg_of(f_)
            gates = [cfg_.node_of(s.node) for s in eng.cg.calls_in(f_) if ce in s.callees and isinstance(s.node, ast.Call) and s.node.args and norm(s.node.args[0]) == encp]
            gates = [g for g in gates if g is not None]
            others = [s for s in eng.cg.calls_in(f_) if isinstance(s.node, ast.Call) and s.callees and ce not in s.callees and cfg_.node_of(s.node) is not None]
            if not gates and not others:
                return False
            for s in others:
                if gates and cfg_.must_pass(cfg_.entry, cfg_.node_of(s.node), gates):
                    continue
                if depth >= 2:
                    return False
                for c_ in s.callees:
                    ps = [p_ for p_ in c_.params if (a_ := eng.cg.arg_for_param(s, c_, p_)) is not None and isinstance(a_, ast.Name) and a_.id == encp]
                    if len(ps) != 1 or not gated(c_, ps[0], depth + 1):
                        return False
            return True
        ok = gated(fn, fn.pos_params[1])
        ctx.check(ok, "R04.1", fn, fn.node, f"{fn.short}", "the ECDH-1PU encrypt side derives a key before refusing a forbidden content encryption", "_check_enc(enc) first", construct=f"_check_enc in {m}")


def _raises(cfg, starts, name: str) -> bool:
    for s0 in starts:
        for n in cfg.reachable(s0):
            if n.kind == "stmt" and isinstance(n.ast, ast.Raise) and n.ast.exc is not None:
                nm = norm(n.ast.exc.func if isinstance(n.ast.exc, ast.Call) else n.ast.exc).split(".")[-1]
                if nm == name:
                    return True
    return False


def r04_2(ctx) -> None:
    eng = ctx.eng
    P = eng.prog
    enc_i = impls(eng, "rfc7516.models:JWEEncModel", "encrypt", include_abstract=True)
    dec_i = impls(eng, "rfc7516.models:JWEEncModel", "decrypt", include_abstract=True)
    cmp_i = impls(eng, "rfc7516.models:JWEZipModel", "compress", include_abstract=True)
    dcm_i = impls(eng, "rfc7516.models:JWEZipModel", "decompress", include_abstract=True)
    conds = {}
    for side, crypt, zipf in (("encrypt", enc_i, cmp_i), ("decrypt", dec_i, dcm_i)):
        cs = [s for s in sites_calling(eng, crypt) if isinstance(s.node, ast.Call) and s.kind in ("method", "cha")]
        zs = [s for s in sites_calling(eng, zipf) if isinstance(s.node, ast.Call) and s.kind in ("method", "cha")]
        if len(cs) != 1 or len(zs) != 1 or cs[0].fn is not zs[0].fn:
            raise AnalysisError(f"R04.2: cannot pair enc.{side} with the zip call")
        fn = cs[0].fn
        cfg = cfg_of(fn)
        cn, zn = cfg.node_of(cs[0].node), cfg.node_of(zs[0].node)
        # condition guarding the zip call
        # tests that decide *whether* compression happens: the zip call needs their true edge, and their false edge is a real
        # alternative (it can complete normally) - error gates that merely precede the call are not part of the condition
        guards = [t for t in cfg.nodes if t.kind == "test" and zn is not None and zn not in cfg.reachable(cfg.entry, edge_filter=lambda a, b, lab, _t=t: not (a is _t and lab == "true"))
                  and isinstance(t.ast, ast.Compare) and isinstance(t.stmt, ast.If) and can_reach_exit(cfg, succ_by_label(cfg, t, "false"))]
        conds[side] = sorted(norm(t.ast) for t in guards)
        if side == "encrypt":
            # the (possibly compressed) plaintext is what is encrypted, and compression precedes encryption
            arg = cs[0].node.args[0]
            defs = [d for d in eng.flow._defs(fn).get(norm(arg), []) if d[0] == "assign"]
            okf = any(d[1] is zs[0].node for d in defs) and zn is not None and cn is not None and cn in cfg.reachable(zn)
            ctx.check(okf, "R04.2", fn, cs[0].node, f"{fn.short} :: compress -> encrypt", "the compressed plaintext is not what enc.encrypt receives", "plaintext = zip_.compress(obj.plaintext); enc.encrypt(plaintext, …)",
                      construct="compress before encrypt")
            # the zip model comes from the header's zip value
            zr = resolve_all(eng, fn, zs[0].node.func.value)
            ctx.check(len(zr) == 1 and "get_zip(" in zr[0] and "['zip']" in zr[0], "R04.2", fn, zs[0].node, f"{fn.short} :: zip model", "the compression model is not looked up from the zip header",
                      "registry.get_zip(obj.protected['zip'])", construct="zip model lookup (encrypt)")
        else:
            arg = zs[0].node.args[0]
            defs = [d for d in eng.flow._defs(fn).get(norm(arg), []) if d[0] == "assign"]
            okf = any(d[1] is cs[0].node for d in defs) and zn is not None and cn is not None and zn in cfg.reachable(cn)
            ctx.check(okf, "R04.2", fn, zs[0].node, f"{fn.short} :: decrypt -> decompress", "decompression is not applied to the output of enc.decrypt", "msg = enc.decrypt(…); zip_.decompress(msg)",
                      construct="decompress after decrypt")
    ctx.check(conds["encrypt"] == conds["decrypt"] and conds["encrypt"] == ["'zip' in obj.protected"], "R04.2", None, None, "zip condition mirror",
              f"compression and decompression are applied under different conditions: {conds}", "'zip' in obj.protected on both sides", construct="zip condition mirror")


def _written_members(fn: FunctionInfo) -> Set[str]:
    out: Set[str] = set()
    for n in fn_nodes(fn):
        if isinstance(n, ast.Dict):
            out |= {k.value for k in n.keys if k is not None and isinstance(k, ast.Constant) and isinstance(k.value, str)}
        if isinstance(n, ast.Subscript) and isinstance(n.ctx, ast.Store) and isinstance(n.slice, ast.Constant) and isinstance(n.slice.value, str):
            out.add(n.slice.value)
    return out


def _read_members(fn: FunctionInfo, param: str) -> Set[str]:
    out: Set[str] = set()
    # loop variables ranging over a list member of the parameter (for item in data["recipients"]) read members of its elements
    elems = {norm(n.target) for n in fn_nodes(fn) if isinstance(n, (ast.For, ast.comprehension)) and isinstance(n.target, ast.Name) and isinstance(n.iter, ast.Subscript)
             and norm(n.iter.value) == param}
    for n in fn_nodes(fn):
        if isinstance(n, ast.Subscript) and isinstance(n.ctx, ast.Load) and isinstance(n.slice, ast.Constant) and isinstance(n.slice.value, str) and norm(n.value) in ({param} | elems):
            out.add(n.slice.value)
        if isinstance(n, ast.Call) and isinstance(n.func, ast.Attribute) and n.func.attr == "get" and norm(n.func.value) in ({param} | elems) and n.args and isinstance(n.args[0], ast.Constant):
            out.add(n.args[0].value)
        if isinstance(n, ast.Compare) and isinstance(n.left, ast.Constant) and isinstance(n.ops[0], (ast.In, ast.NotIn)) and norm(n.comparators[0]) in ({param} | elems):
            out.add(n.left.value)
    return out


def _always(fn: FunctionInfo, e: ast.AST) -> bool:
    """the statement holding expression `e` lies on every path from the entry of fn to its normal exit"""
    cfg = cfg_of(fn)
    n = cfg.node_of(e)
    return n is not None and cfg.must_pass(cfg.entry, cfg.exit, [n])


def _unconditionally_written(fn: FunctionInfo) -> Set[str]:
    out: Set[str] = set()
    for n in fn_nodes(fn):
        if isinstance(n, ast.Dict) and _always(fn, n):
            out |= {k.value for k in n.keys if k is not None and isinstance(k, ast.Constant) and isinstance(k.value, str)}
        if isinstance(n, ast.Subscript) and isinstance(n.ctx, ast.Store) and isinstance(n.slice, ast.Constant) and isinstance(n.slice.value, str) and _always(fn, n):
            out.add(n.slice.value)
    return out


def _demanded_members(fn: FunctionInfo, param: str) -> Set[str]:
    """members the reader subscripts on every path (`data["iv"]`): a document without them is refused with a KeyError"""
    return {n.slice.value for n in fn_nodes(fn) if isinstance(n, ast.Subscript) and isinstance(n.ctx, ast.Load) and isinstance(n.slice, ast.Constant)
            and isinstance(n.slice.value, str) and norm(n.value) == param and _always(fn, n)}


def r04_3(ctx) -> None:
    eng = ctx.eng
    P = eng.prog
    J = P.mod("rfc7516.json")

    def f(name):
        for fn in J.functions:
            if fn.name == name:
                return fn
        raise AnalysisError(f"rfc7516.json:{name} vanished")
    def f_opt(name):
        # a shared private helper may have been written out into its callers (then what it wrote is in them)
        return next((fn for fn in J.functions if fn.name == name), None)
    rep_common = f_opt("__represent_json_serialization")
    ext_common = f_opt("__extract_segments")
    for kind in ("general", "flattened"):
        rep, ext = f(f"represent_{kind}_json"), f(f"extract_{kind}_json")
        helpers_r = [h_ for h_ in (rep, rep_common) if h_ is not None]
        helpers_r += [c for s in eng.cg.calls_in(rep) for c in s.callees if c.module is J and c not in helpers_r]
        helpers_e = [h_ for h_ in (ext, ext_common) if h_ is not None] + [c for s in eng.cg.calls_in(ext) for c in s.callees if c.module is J and c not in (ext_common,)]
        written = set().union(*[_written_members(h) for h in helpers_r]) - {"k"}
        read = set()
        for h in helpers_e:
            for p in h.params:
                read |= _read_members(h, p)
        want = RFC7516_TOP | (RFC7516_RCP | {"recipients"} if kind == "general" else RFC7516_RCP)
        ctx.check(written == want, "R04.3", rep, rep.node, f"{kind} JSON writer members", f"{kind} JSON writer emits {sorted(written)}; RFC 7516 section 7.2 names {sorted(want)}", f"= {sorted(want)}",
                  construct=f"{kind} JSON writer members")
        ctx.check(read == want, "R04.3", ext, ext.node, f"{kind} JSON reader members", f"{kind} JSON reader consumes {sorted(read)}; the writer emits {sorted(written)}", f"= {sorted(want)}",
                  construct=f"{kind} JSON reader members")
        # R04.16 sibling agreement on optionality: a member the reader demands on every path is written on every path
        # (an empty ciphertext / iv / tag is still a member: dropping it when empty makes the library refuse its own output)
        demanded = set()
        for h in helpers_e:
            for p in h.params:
                demanded |= _demanded_members(h, p)
        always = set().union(*[_unconditionally_written(h) for h in helpers_r])
        lost = sorted((demanded & want) - always)
        ctx.check(not lost, "R04.16", rep, rep.node, f"{kind} JSON :: members demanded by the reader are always written",
                  f"{kind} JSON reader subscripts {lost} unconditionally but the writer stores {'it' if len(lost) == 1 else 'them'} only under a condition: "
                  f"a message whose {(lost or ['?'])[0]} is empty serialises to a document the library itself refuses", f"{sorted(demanded & want)} written on every path",
                  construct=f"{kind} JSON required members")
        ctx.count("R04.16", len(demanded & want), 1, f"members the {kind} JSON reader demands on every path")
    # optional members are written when (not unless) their value is present
    nst = 0
    for h in [x_ for x_ in (f("represent_general_json"), f("represent_flattened_json"), rep_common) if x_ is not None]:
        nst += 1
        bad = misguarded_member_stores(eng, h)
        ctx.check(not bad, "R04.3", h, bad[0][0] if bad else h.node, f"{h.short} :: optional members", f"JSON writer: {bad[0][1] if bad else ''}", "if value: data[member] = value",
                  construct=f"optional member guards in {h.name}")
    # compact: five segments in the order header, encrypted key, iv, ciphertext, tag
    C_ = P.mod("rfc7516.compact")
    rep = [fn for fn in C_.functions if fn.name == "represent_compact"][0]
    ext = [fn for fn in C_.functions if fn.name == "extract_compact"][0]
    joins = [n for n in fn_nodes(rep) if isinstance(n, ast.Call) and isinstance(n.func, ast.Attribute) and n.func.attr == "join" and const_value(n.func.value) == b"."]
    ok = len(joins) == 1 and isinstance(joins[0].args[0], (ast.List, ast.Tuple)) and len(joins[0].args[0].elts) == 5
    if ok:
        el = [norm(x) for x in joins[0].args[0].elts]
        el[1] = resolve_all(eng, rep, joins[0].args[0].elts[1])[0]
        ok = el[0].endswith("base64_segments['aad']") and el[1].startswith("urlsafe_b64encode(") and el[1].endswith(".recipient.encrypted_key)") and el[2].endswith("base64_segments['iv']") \
            and el[3].endswith("base64_segments['ciphertext']") and el[4].endswith("base64_segments['tag']")
    ctx.check(ok, "R04.3", rep, rep.node, "compact writer", "represent_compact does not emit header.encrypted_key.iv.ciphertext.tag", "five segments in RFC 7516 section 7.1 order", construct="compact writer order")
    unp = [n for n in fn_nodes(ext) if isinstance(n, ast.Assign) and isinstance(n.targets[0], ast.Tuple) and len(n.targets[0].elts) == 5]
    vp_ = ext.pos_params[0]
    SPLIT = f"{vp_}.split(b'.')"
    oke = len(unp) == 1 and all(isinstance(x, ast.Name) for x in unp[0].targets[0].elts) and resolve_all(eng, ext, unp[0].value) == [SPLIT]
    T = [x.id for x in unp[0].targets[0].elts] if oke else ["\0"] * 5
    oke = oke and len(set(T)) == 5
    lens = [n for n in fn_nodes(ext) if isinstance(n, ast.Compare) and resolve_all(eng, ext, n.left) == [f"len({SPLIT})"] and const_value(n.comparators[0]) == 5]
    # each named segment lands in the matching slot
    slots = {}
    for n in fn_nodes(ext):
        if isinstance(n, ast.Dict):
            for k, v in zip(n.keys, n.values):
                if k is not None and isinstance(k, ast.Constant):
                    slots.setdefault(k.value, set()).add(norm(v))
    # ... also where the slots are stored one by one (`obj.base64_segments['iv'] = iv_segment`)
    for n in fn_nodes(ext):
        if isinstance(n, ast.Assign) and len(n.targets) == 1 and isinstance(n.targets[0], ast.Subscript) and isinstance(n.targets[0].slice, ast.Constant) \
                and norm(n.targets[0].value).endswith(("base64_segments", "bytes_segments")):
            slots.setdefault(n.targets[0].slice.value, set()).add(norm(n.value))
    okm = slots.get("aad") == {T[0]} and slots.get("iv") == {T[2], f"urlsafe_b64decode({T[2]})"} and \
        slots.get("ciphertext") == {T[3], f"urlsafe_b64decode({T[3]})"} and slots.get("tag") == {T[4], f"urlsafe_b64decode({T[4]})"}
    eks = [n for n in fn_nodes(ext) if isinstance(n, ast.Assign) and norm(n.targets[0]).endswith(".encrypted_key") and norm(n.value) == f"urlsafe_b64decode({T[1]})"]
    # and the protected header is decoded from the first segment
    hdr = [s_.node for s_ in eng.cg.calls_in(ext) if isinstance(s_.node, ast.Call) and s_.node.args and norm(s_.node.args[0]) == T[0]
           and any(c_.short in ("util:json_b64decode", "rfc7515.compact:decode_header") for c_ in s_.callees)]
    okm = okm and bool(hdr)
    ctx.check(oke and bool(lens) and okm and bool(eks), "R04.3", ext, ext.node, "compact reader", "extract_compact does not read the five segments into the matching slots", "header, encrypted key, iv, ciphertext, tag",
              construct="compact reader order")


@_ioe
def _headers_folded(ctx):
    """Fold Recipient.headers() on probe recipients under each of the three message classes: the result is a NEW dict equal to the protected header
    overlaid with the shared unprotected header (JSON serializations, when non-empty) overlaid with the recipient's own header (when non-empty) -
    later layers win on a shared name, key order is that of first insertion - and none of the three source dicts is changed or handed out.
    Returns the list of deviations, or None when the fold is inconclusive (DESIGN 11.11)."""
    from ..fold import FuncVal, is_unknown, Inst
    eng = ctx.eng
    P, F = eng.prog, eng.folder
    R = P.cls("rfc7516.models:Recipient")
    h = R.methods.get("headers")
    kinds = [("compact", P.cls("rfc7516.models:CompactEncryption")), ("general", P.cls("rfc7516.models:GeneralJSONEncryption")), ("flattened", P.cls("rfc7516.models:FlattenedJSONEncryption"))]
    prot_s = [{"enc": "E", "alg": "P"}, {"enc": "E"}]
    unp_s = [None, {}, {"alg": "U", "zip": "u"}, {"jku": "u"}]
    hdr_s = [None, {}, {"alg": "H"}, {"alg": "H", "zip": "h", "kid": "k"}]
    problems: List[str] = []
    F.start_trace()
    try:
        for kname, kcls in kinds:
            for pr in prot_s:
                for un in (unp_s if kname != "compact" else [None]):
                    for hd in hdr_s:
                        p_, u_, h_ = dict(pr), (dict(un) if un is not None else None), (dict(hd) if hd is not None else None)
                        parent = F.instantiate(kcls, [p_, b"m"] + ([u_] if kname != "compact" else []), {})
                        rcp = F.instantiate(R, [parent, h_, None], {})
                        if not isinstance(parent, Inst) or not isinstance(rcp, Inst):
                            return None
                        got = F.call(FuncVal(h, None, rcp), [], {})
                        if is_unknown(got) or not isinstance(got, dict) or any(is_unknown(v) for v in got.values()):
                            return None
                        want = dict(pr)
                        if kname != "compact" and un:
                            want.update(un)
                        if hd:
                            want.update(hd)
                        where = f"{kname}: protected {pr}, unprotected {un}, recipient header {hd}"
                        if got != want or list(got) != list(want):
                            problems.append(f"headers() is {got}, the merged view must be {want} ({where})")
                        if got is p_ or got is u_ or got is h_:
                            problems.append(f"headers() hands out one of the header dicts itself instead of a new dict ({where})")
                        if p_ != pr or (un is not None and u_ != un) or (hd is not None and h_ != hd):
                            problems.append(f"headers() changes a header of the message ({where})")
    finally:
        sided = F.one_sided(ignore=("__init__",))
    return None if sided else problems


def r04_4(ctx) -> None:
    eng = ctx.eng
    P = eng.prog
    R = P.cls("rfc7516.models:Recipient")
    h = R.methods.get("headers")
    ah = R.methods.get("add_header")
    if h is None or ah is None:
        raise AnalysisError("Recipient.headers / add_header vanished")
    cfg = cfg_of(h)
    rets_h0 = [r.value for r in fn_nodes(h) if isinstance(r, ast.Return) and r.value is not None]
    rv0 = rets_h0[0].id if len(rets_h0) == 1 and isinstance(rets_h0[0], ast.Name) else "\0"
    ups = [n for n in fn_nodes(h) if isinstance(n, ast.Call) and isinstance(n.func, ast.Attribute) and n.func.attr == "update" and norm(n.func.value) == rv0]
    order = []
    for u in sorted(ups, key=lambda x: x.lineno):
        a = norm(u.args[0])
        order.append("protected" if a.endswith(".protected") else "unprotected" if a.endswith(".unprotected") else "header" if a.endswith(".header") else a)
    ok = order == ["protected", "unprotected", "header"]
    if ok:
        nodes = [cfg.node_of(u) for u in sorted(ups, key=lambda x: x.lineno)]
        ok = all(n is not None for n in nodes) and nodes[1] in cfg.reachable(nodes[0]) and nodes[2] in cfg.reachable(nodes[1]) \
            and nodes[0] not in cfg.reachable(nodes[1]) and cfg.must_pass(cfg.entry, cfg.exit, [nodes[0]])
    rets_h = [r.value for r in fn_nodes(h) if isinstance(r, ast.Return) and r.value is not None]
    rvn = rets_h[0].id if len(rets_h) == 1 and isinstance(rets_h[0], ast.Name) else "\0"
    fresh = [d for d in eng.flow._defs(h).get(rvn, []) if d[0] == "assign"]
    ok = ok and len(fresh) == 1 and isinstance(fresh[0][1], ast.Dict) and not fresh[0][1].keys
    base_ = P.cls("rfc7516.models:BaseJSONEncryption")
    for u in ups:
        if u.args and norm(u.args[0]).endswith(".unprotected"):
            why_ = isinstance_excludes(eng, h, u, base_.all_subclasses())
            ctx.check(why_ is None, "R04.4", h, u, f"{h.short} :: shared unprotected header of every JSON serialization", "the shared unprotected header is merged into a recipient's "
                      f"headers only for some JSON serialization classes: {why_} - for the others alg / epk / p2s ... placed there are ignored", "isinstance(parent, BaseJSONEncryption)",
                      construct="unprotected merge class coverage")
    hf = _headers_folded(ctx)
    if hf is not None:
        ctx.check(not hf, "R04.4", h, h.node, h.short, "Recipient.headers does not merge protected, then shared unprotected, then per-recipient members into a fresh dict: " + "; ".join(hf[:2]),
                  "a new dict: protected, overlaid with the shared unprotected header, overlaid with the recipient's header", construct="header merge order")
    else:
        ctx.check(ok, "R04.4", h, h.node, h.short, f"Recipient.headers does not merge protected, then shared unprotected, then per-recipient members into a fresh dict (order {order})",
                  "rv = {}; update(protected); update(unprotected); update(header)", construct="header merge order")
    cfg = cfg_of(ah)
    t = [x for x in cfg.nodes if x.kind == "test" and isinstance(x.ast, ast.Call) and norm(x.ast.func) == "isinstance" and norm(x.ast.args[1]) == "CompactEncryption"]
    okc = bool(t)
    if okc:
        tr = set()
        for s0 in succ_by_label(cfg, t[0], "true"):
            tr |= cfg.reachable(s0)
        fl = set()
        for s0 in succ_by_label(cfg, t[0], "false"):
            fl |= cfg.reachable(s0)
        wt = [norm(n.ast) for n in tr if n.kind == "stmt" and n not in fl]
        wf = [norm(n.ast) for n in fl if n.kind == "stmt" and n not in tr]
        okc = any(".protected.update(" in x or ".protected[" in x.split("=")[0] for x in wt) and not any(".protected" in x for x in wf) and any(f"{ah.self_name}.header" in x for x in wf)
    ctx.check(okc, "R04.4", ah, ah.node, ah.short, "add_header does not write to the protected header for compact and to the per-recipient header otherwise",
              "compact -> parent.protected; JSON -> recipient.header", construct="add_header placement")


def r04_5(ctx) -> None:
    """the JWE AAD member takes part under one and the same predicate when encrypting, when writing the JSON member and when
    decrypting: `if obj.aad` on one side and `if obj.aad is not None` on another makes aad=b"" undecryptable"""
    eng = ctx.eng
    P = eng.prog
    enc_i = impls(eng, "rfc7516.models:JWEEncModel", "encrypt", include_abstract=True)
    dec_i = impls(eng, "rfc7516.models:JWEEncModel", "decrypt", include_abstract=True)
    fns = {}
    for side, crypt in (("encrypt", enc_i), ("decrypt", dec_i)):
        cs = [s for s in sites_calling(eng, crypt) if isinstance(s.node, ast.Call) and s.kind in ("method", "cha")]
        if len(cs) != 1:
            raise AnalysisError(f"R04.5: enc.{side} call site not unique")
        fns[side] = cs[0].fn
    writers = [f for f in P.mod("rfc7516.json").functions if "represent" in f.name and any(isinstance(n, ast.Constant) and n.value == "aad" for n in fn_nodes(f))]
    if not writers:
        raise AnalysisError("R04.5: JSON writer of the aad member not found")
    fns["write"] = writers[0]
    preds = {}
    for side, fn in fns.items():
        cfg = cfg_of(fn)
        atoms = set()
        for t in cfg.nodes:
            if t.kind != "test":
                continue
            hit = [x for x in ast.walk(t.ast) if isinstance(x, ast.Attribute) and x.attr == "aad" and isinstance(x.value, ast.Name)]
            if not hit:
                continue
            txt = norm(t.ast)
            for h in hit:
                txt = txt.replace(norm(h), "$.aad")
            # the outcome under which the member takes part
            uses = [n for n in cfg.nodes if n.kind == "stmt" and any(isinstance(x, ast.Attribute) and x.attr == "aad" for x in ast.walk(n.ast)) and
                    not isinstance(n.ast, ast.If)]
            pos = any(u in cfg.reachable(s0, [t]) for s0 in succ_by_label(cfg, t, "true") for u in uses)
            neg = any(u in cfg.reachable(s0, [t]) for s0 in succ_by_label(cfg, t, "false") for u in uses)
            atoms.add((txt, "true" if pos and not neg else ("false" if neg and not pos else "?")))
        preds[side] = sorted(atoms)
    vals = list(preds.values())
    ok = all(v and v == vals[0] for v in vals) and all(lab != "?" for v in vals for _, lab in v)
    ctx.check(ok, "R04.5", fns["encrypt"], fns["encrypt"].node, "aad condition mirror", "the JWE AAD member is used under different predicates when encrypting, when writing the JSON serialization and "
              f"when decrypting: {preds} (an AAD for which the predicates differ, e.g. b\"\", cannot be decrypted)", "the same test of obj.aad at the three sites", construct="aad condition mirror")


def _drop_json_opt(t):
    """specialise a term to the compact serialization: parts that exist only `if isinstance(obj, BaseJSONEncryption) and ...` vanish"""
    if not isinstance(t, tuple) or not t:
        return t
    if t[0] == "CAT":
        parts = [_drop_json_opt(x) for x in t[1] if not (isinstance(x, tuple) and x and x[0] == "OPT" and "BaseJSONEncryption" in str(x[1]))]
        return parts[0] if len(parts) == 1 else ("CAT", tuple(parts))
    if t[0] == "ALT" and len(t) == 4 and "BaseJSONEncryption" in str(t[1]):
        return _drop_json_opt(t[3])  # the branch taken when the JSON-only condition is false
    return tuple(_drop_json_opt(x) for x in t)


def r04_7(ctx) -> None:
    """term-level round trip of the compact JWE: what _perform_decrypt hands to enc.decrypt after extract_compact(represent_compact(
    perform_encrypt(obj))) - composed symbolically over the byte terms of the code under the codec laws of jv/terms.py - is exactly
    (C, T) = enc.encrypt(M, cek, iv, aad)[0 / 1] together with the same iv and the same aad"""
    from ..terms import Terms, show, simplify, substitute
    eng = ctx.eng
    P = eng.prog
    Tm = Terms(eng)
    pe, pd = P.func("rfc7516.message:perform_encrypt"), P.func("rfc7516.message:_perform_decrypt")
    rc, xc = P.func("rfc7516.compact:represent_compact"), P.func("rfc7516.compact:extract_compact")
    op = pe.pos_params[0]
    stores = {}
    for n in fn_nodes(pe):
        if isinstance(n, ast.Assign) and len(n.targets) == 1 and isinstance(n.targets[0], ast.Subscript) and norm(n.targets[0].value) == f"{op}.base64_segments" \
                and isinstance(n.targets[0].slice, ast.Constant):
            stores[n.targets[0].slice.value] = _drop_json_opt(Tm.of(pe, n.value))
    encs = [n for n in fn_nodes(pe) if isinstance(n, ast.Call) and isinstance(n.func, ast.Attribute) and n.func.attr == "encrypt" and len(n.args) == 4]
    if set(stores) != {"iv", "aad", "ciphertext", "tag"} or len(encs) != 1:
        raise AnalysisError(f"R04.7: perform_encrypt stores {sorted(stores)} / {len(encs)} encrypt call(s)")
    ENC = _drop_json_opt(Tm.of(pe, encs[0]))
    rets = [n.value for n in fn_nodes(rc) if isinstance(n, ast.Return) and n.value is not None]
    if len(rets) != 1:
        raise AnalysisError("represent_compact: expected one return")
    prod = Tm.of(rc, rets[0])
    ro = rc.pos_params[0]
    for k, t in stores.items():
        prod = substitute(prod, f"{ro}.base64_segments['{k}']", t)
    vp = xc.pos_params[0]
    b64, raw = {}, {}
    for n in fn_nodes(xc):
        if isinstance(n, ast.Call) and isinstance(n.func, ast.Attribute) and n.func.attr == "update" and n.args and isinstance(n.args[0], ast.Dict):
            tgt = b64 if norm(n.func.value).endswith(".base64_segments") else (raw if norm(n.func.value).endswith(".bytes_segments") else None)
            if tgt is None:
                continue
            for k, v in zip(n.args[0].keys, n.args[0].values):
                if isinstance(k, ast.Constant):
                    tgt[k.value] = simplify(substitute(Tm.of(xc, v), vp, prod))
        elif isinstance(n, ast.Assign) and len(n.targets) == 1 and isinstance(n.targets[0], ast.Subscript) and isinstance(n.targets[0].slice, ast.Constant):
            rcv = norm(n.targets[0].value)
            tgt = b64 if rcv.endswith(".base64_segments") else (raw if rcv.endswith(".bytes_segments") else None)
            if tgt is not None:
                tgt[n.targets[0].slice.value] = simplify(substitute(Tm.of(xc, n.value), vp, prod))
    decs = [n for n in fn_nodes(pd) if isinstance(n, ast.Call) and isinstance(n.func, ast.Attribute) and n.func.attr == "decrypt" and len(n.args) == 5]
    if len(decs) != 1:
        raise AnalysisError("R04.7: enc.decrypt call in _perform_decrypt not found")
    do = pd.pos_params[0]
    args = []
    for a in decs[0].args:
        t = _drop_json_opt(Tm.of(pd, a))
        for k, v in b64.items():
            t = substitute(t, f"{do}.base64_segments['{k}']", v)
        for k, v in raw.items():
            t = substitute(t, f"{do}.bytes_segments['{k}']", v)
        args.append(simplify(t))
    ct, tg, _cek, iv, aad = args
    want = {"ciphertext": ("IDX", ENC, 0), "tag": ("IDX", ENC, 1), "iv": ENC[2][3] if ENC[:2] == ("CALL", "encrypt") and len(ENC[2]) >= 5 else None,
            "aad": ENC[2][4] if ENC[:2] == ("CALL", "encrypt") and len(ENC[2]) >= 5 else None}
    got = {"ciphertext": ct, "tag": tg, "iv": iv, "aad": aad}
    for k in ("ciphertext", "tag", "iv", "aad"):
        ctx.check(want[k] is not None and got[k] == want[k], "R04.7", pd, decs[0], f"compact round trip :: {k}", f"after extract_compact(represent_compact(...)) enc.decrypt receives as {k} "
                  f"{show(got[k])[:160]}, not the value produced / used by enc.encrypt ({show(want[k])[:120] if want[k] else '?'})", f"= {show(want[k])[:100] if want[k] else '?'}",
                  construct=f"compact JWE round trip of {k}")
    ctx.assume("codec laws used by R04.7: split('.') of base64url segments; B64D(B64U(x)) = x; enc.decrypt(enc.encrypt(M, k, iv, aad), k, iv, aad) = M (primitive)")


def r04_8(ctx) -> None:
    """several recipients of mixed algorithms / key sizes / curves: a recipient that cannot be processed with the given key is
    skipped (unless every recipient must verify) whatever library error it fails with - the handler around the per-recipient CEK
    recovery catches the base error class"""
    from .common import handler_catches
    eng = ctx.eng
    pd = eng.prog.func("rfc7516.message:_perform_decrypt")
    n = 0
    for tr in [x for x in fn_nodes(pd) if isinstance(x, ast.Try)]:
        if not any(isinstance(y, ast.Call) and norm(y.func).endswith("decrypt_recipient") for b in tr.body for y in ast.walk(b)):
            continue
        n += 1
        caught = set()
        for h in tr.handlers:
            caught |= set(handler_catches(eng, pd, h))
        ok = any(c.split(":")[-1].split(".")[-1] in ("JoseError", "Exception", "BaseException", "*") for c in caught)
        ctx.check(ok, "R04.8", pd, tr, f"{pd.short} :: per-recipient handler", f"the handler around decrypt_recipient catches {sorted(caught)} but not the library's base error: a recipient that "
                  "fails with another JoseError (wrong key size, other curve) aborts the decryption for the recipients that would succeed", "except (AssertionError, JoseError)",
                  construct="per-recipient error handler classes")
    ctx.count("R04.8", n, 1, "try blocks around decrypt_recipient")


from .c05 import _resolve_local as _resolve_local_c05


def r04_9(ctx) -> None:
    """every serialization hands the caller's sender key on: wherever a function with a `sender_key` parameter calls a function with a
    `sender_key` parameter it passes its own value (ECDH-1PU would otherwise be undecryptable in that serialization only)"""
    eng = ctx.eng
    n = 0
    for fn in eng.prog.all_functions():
        if "sender_key" not in fn.params:
            continue
        for s in eng.cg.calls_in(fn):
            if not isinstance(s.node, ast.Call):
                continue
            for c in s.callees:
                if "sender_key" not in c.params or c is fn:
                    continue
                n += 1
                a = eng.cg.arg_for_param(s, c, "sender_key")
                ok = a is not None and norm(a) == "sender_key"
                ctx.check(ok, "R04.9", fn, s.node, f"{fn.short} -> {c.short}", f"{fn.short} does not pass its `sender_key` on to {c.short} "
                          f"({'argument omitted' if a is None else 'passes ' + norm(a)})", "sender_key=sender_key", construct=f"sender_key forwarding {fn.short} -> {c.short}")
    # the key handed to the sender-key resolution is the caller's sender key (not the recipient's key, the plaintext, ...)
    try:
        gs = eng.prog.func("jwe:_guess_sender_key")
    except AnalysisError:
        # the helper was specialised away and its copies are written out in the callers: there the key set searched by skid is the caller's `sender_key`
        gs = None
        ks_ = eng.prog.cls("_keys:KeySet")
        gb_ = ks_.methods["get_by_kid"]
        for fn in eng.prog.all_functions():
            if not fn.short.startswith("jwe:") or "sender_key" not in fn.params:
                continue
            for s in eng.cg.calls_in(fn):
                if gb_ in s.callees and isinstance(s.node, ast.Call) and isinstance(s.node.func, ast.Attribute) and s.node.args and "skid" in _resolve_local_c05(eng, fn, s.node.args[0]):
                    n += 1
                    recv = norm(s.node.func.value)
                    ctx.check(recv == "sender_key", "R04.9", fn, s.node, f"{fn.short} -> _guess_sender_key", f"{fn.short} resolves the ECDH-1PU sender key from "
                              f"`{recv}` instead of its `sender_key` argument", "sender_key.get_by_kid(skid)", construct=f"sender key source in {fn.short}")
                    cfg = cfg_of(fn)
                    sn = cfg.node_of(s.node)
                    ctl = [t for t in cfg.nodes if t.kind == "test" and isinstance(t.ast, ast.Name) and sn is not None
                           and sn not in cfg.reachable(cfg.entry, edge_filter=lambda a_, b_, lab, _t=t: not (a_ is _t and lab == "true"))]
                    ctl = [t for t in ctl if "skid" not in t.ast.id]
                    ctx.check(all(t.ast.id == "sender_key" for t in ctl), "R04.9", fn, s.node, f"{fn.short} :: sender key condition", f"the sender key is resolved under a test of "
                              f"{[t.ast.id for t in ctl]}, not of `sender_key`", "if sender_key:", construct=f"sender key condition in {fn.short}")
    for s in (eng.cg.callers.get(gs, []) if gs is not None else []):
        if isinstance(s.node, ast.Call) and "sender_key" in s.fn.params:
            n += 1
            a = eng.cg.arg_for_param(s, gs, gs.pos_params[1])
            ctx.check(a is not None and norm(a) == "sender_key", "R04.9", s.fn, s.node, f"{s.fn.short} -> _guess_sender_key", f"{s.fn.short} resolves the ECDH-1PU sender key from "
                      f"`{norm(a) if a is not None else '?'}` instead of its `sender_key` argument", "_guess_sender_key(recipient, sender_key, ...)", construct=f"sender key source in {s.fn.short}")
            cfg = cfg_of(s.fn)
            sn = cfg.node_of(s.node)
            ctl = [t for t in cfg.nodes if t.kind == "test" and isinstance(t.ast, ast.Name) and sn is not None
                   and sn not in cfg.reachable(cfg.entry, edge_filter=lambda a_, b_, lab, _t=t: not (a_ is _t and lab == "true"))]
            ctx.check(all(t.ast.id == "sender_key" for t in ctl), "R04.9", s.fn, s.node, f"{s.fn.short} :: sender key condition", f"the sender key is resolved under a test of "
                      f"{[t.ast.id for t in ctl]}, not of `sender_key`", "if sender_key:", construct=f"sender key condition in {s.fn.short}")
    ctx.count("R04.9", n, 5, "call sites that forward / resolve the sender key")


ALG_TRAITS = ("tag_aware", "direct_mode")


def r04_12(ctx) -> None:
    """R04.12  a trait of the key-management algorithm (tag_aware, direct_mode) selects between two ways of treating a recipient: the
    object whose trait is read is the object that is then used for that recipient.  With mixed algorithms in one general-JSON token a
    trait read from another recipient's algorithm (hoisted out of the loop, cached, read from the first task) derives a key the
    decrypting side does not derive."""
    eng = ctx.eng
    n = 0
    km = eng.prog.cls("rfc7516.models:KeyManagement")
    alg_methods = {m for c in [km] + km.all_subclasses() for m in c.methods if not m.startswith("__")}
    for fn in eng.prog.all_functions():
        if not fn.module.name.endswith(("rfc7516.message", "jwe")) or fn.name == "<module>":
            continue
        sites = {id(s.node): s for s in eng.cg.calls_in(fn)}
        for node in fn_nodes(fn):
            if not isinstance(node, (ast.If, ast.IfExp)):
                continue
            owners: Set[str] = set()
            trait = None
            for txt in resolve_all(eng, fn, node.test):
                try:
                    tree = ast.parse(txt, mode="eval")
                except SyntaxError:
                    continue
                for x in ast.walk(tree):
                    if isinstance(x, ast.Attribute) and x.attr in ALG_TRAITS:
                        trait = x.attr
                        owners.add(norm(x.value))
            if trait is None:
                continue
            branches = (node.body + node.orelse) if isinstance(node, ast.If) else [node.body, node.orelse]
            for b in branches:
                for c in ast.walk(b):
                    if not isinstance(c, ast.Call):
                        continue
                    s = sites.get(id(c))
                    used: List[ast.AST] = []
                    if isinstance(c.func, ast.Attribute) and (c.func.attr in alg_methods or (s is not None and any(
                            k.cls is not None and any(a.name == "KeyManagement" for a in k.cls.mro) for k in s.callees))):
                        used.append(c.func.value)
                    if s is not None:
                        for k in s.callees:
                            if "alg" in k.params and k.cls is None:
                                a = eng.cg.arg_for_param(s, k, "alg")
                                if a is not None:
                                    used.append(a)
                    for u in used:
                        n += 1
                        got = set(resolve_all(eng, fn, u))
                        ctx.check(got == owners, "R04.12", fn, c, f"{fn.short} :: {trait} of {sorted(owners)} selects {norm(c.func)}",
                                  f"`{trait}` is read from {sorted(owners)} but the branch it selects works with {sorted(got)}: with recipients of mixed algorithms "
                                  f"the trait of one algorithm decides how another one is used", f"if <alg>.{trait}: <alg>.…(…) on the same object",
                                  construct=f"{trait} read from {sorted(owners)} for {sorted(got)} in {fn.short}")
    ctx.count("R04.12", n, 10, "uses of an algorithm object under a branch on one of its traits")


HEADER_POSITIONS = ("protected", "unprotected", "header")


def r04_14(ctx, family: Optional[str] = None) -> None:
    """R04.14  "the header members in their protected, shared-unprotected and per-recipient positions" come back as given: the library adds
    members to header objects (epk, p2s, kid ...) but never removes or clears one - no `del h[...]`, `.pop`, `.popitem`, `.clear` on an
    expression that denotes a header position (`<x>.protected`, `<x>.unprotected`, `<x>.header`, a `headers()` view is a copy)."""
    eng = ctx.eng
    n = 0

    def is_pos(fn, e: ast.AST) -> bool:
        for t_ in resolve_all(eng, fn, e):
            last = t_.split(".")[-1]
            if last in HEADER_POSITIONS or last.lstrip("_") in HEADER_POSITIONS:
                return True
        return False

    stores = 0
    for fn in eng.prog.all_functions():
        if fn.module.short.startswith(("rfc7519", "rfc7517", "rfc7518.oct", "rfc7518.rsa", "rfc7518.ec", "rfc8037.okp", "_keys", "jwk")):
            continue
        if not in_family(fn, family):
            continue
        for node in fn_nodes(fn):
            hit = None
            if isinstance(node, ast.Delete):
                for t_ in node.targets:
                    if isinstance(t_, ast.Subscript) and is_pos(fn, t_.value):
                        hit = t_
            elif isinstance(node, ast.Call) and isinstance(node.func, ast.Attribute) and node.func.attr in ("pop", "popitem", "clear", "__delitem__") and is_pos(fn, node.func.value):
                hit = node
            elif isinstance(node, ast.Subscript) and isinstance(node.ctx, ast.Store) and is_pos(fn, node.value):
                stores += 1
            elif isinstance(node, ast.Call) and isinstance(node.func, ast.Attribute) and node.func.attr == "update" and is_pos(fn, node.func.value):
                stores += 1
            if hit is not None:
                n += 1
                ctx.fail("R04.14", fn, hit, f"{fn.short} removes a member from a header object (`{norm(hit)[:60]}`): the header that comes back is not the header that was given",
                         construct=f"header member removed in {fn.short}")
    ctx.count("R04.14", stores, 3, "stores into header positions (the rule's positive examples; removals found: %d)" % n)


def r04_18(ctx) -> None:
    """R04.18  "every plaintext ... decrypts to itself": an empty JWE Ciphertext (AEAD of the empty plaintext) and an empty JWE Encrypted Key (dir,
    direct key agreement) are well-formed parts.  In the JWE readers the only refusals that depend on those parts are the failure of their
    base64url decoding and the absence of the member; a test of the part's truthiness / emptiness / length that leads to a raise refuses what the
    library itself produces."""
    eng = ctx.eng
    n = 0
    J = eng.prog.mod("rfc7516.json")
    fns = [eng.prog.func("rfc7516.compact:extract_compact")] + [fn for fn in J.functions if fn.name.lstrip("_").startswith("extract")]
    for fn in fns:
        cfg = cfg_of(fn)
        # compact: the locals that hold the 2nd and 4th segment of the split
        seg_names = {"ciphertext_segment", "ek_segment"}
        for node in fn_nodes(fn):
            if isinstance(node, ast.Assign) and isinstance(node.targets[0], ast.Tuple) and len(node.targets[0].elts) == 5 and all(isinstance(x, ast.Name) for x in node.targets[0].elts):
                seg_names |= {node.targets[0].elts[1].id, node.targets[0].elts[3].id}
        for t in cfg.nodes:
            if t.kind != "test":
                continue
            texts = resolve_all(eng, fn, t.ast) + [norm(t.ast)]
            names = {y.id for y in ast.walk(t.ast) if isinstance(y, ast.Name)}
            about = [m for m in ("ciphertext", "encrypted_key") if any(f"['{m}']" in x or f".get('{m}'" in x for x in texts)] + sorted(names & seg_names)
            if not about:
                continue
            n += 1
            if isinstance(t.ast, ast.Compare) and len(t.ast.ops) == 1 and isinstance(t.ast.ops[0], (ast.In, ast.NotIn)) and const_value(t.ast.left) in ("ciphertext", "encrypted_key"):
                continue  # presence of the member is about the shape of the serialization
            if isinstance(t.ast, ast.Call) and isinstance(t.ast.func, ast.Name) and t.ast.func.id == "isinstance":
                continue  # a type test refuses no octet string
            for lab in ("true", "false"):
                succ = succ_by_label(cfg, t, lab)
                if succ and not can_reach_exit(cfg, succ):
                    ctx.fail("R04.18", fn, t.ast, f"{fn.short} refuses a token on a test of its {about[0]} part (`{norm(t.ast)[:60]}`): the empty octet sequence is a valid "
                             "ciphertext (empty plaintext under an AEAD) / encrypted key (dir, direct agreement) and no longer decrypts", construct=f"{about[0]}-dependent refusal in {fn.short}")
    ctx.ok("R04.18", "JWE readers :: refusals that depend on the ciphertext / encrypted key", f"{n} tests about those parts, none of them leads to a refusal")


def run(ctx) -> None:
    from .c14 import r14_6_7 as _r14_6_7
    ctx.guard_as("R04.19", _r14_6_7, "jwe")  # a header member the library adds (epk, iv, tag, kid) replaces what the position held: re-encrypting an object works
    ctx.guard(r04_18)
    from .c18 import r18_6 as _r18_6
    ctx.guard_as("R04.24", _r18_6)  # "general JSON with several recipients of mixed algorithms ... every key of the required curve": the ephemeral key of a key-agreement recipient is generated for THAT recipient (on its key's curve), never taken from a cache shared between recipients (seed C04-s: one ephemeral pair per key type - P-256 + P-384 recipients could not be encrypted)
    from .common import member_crossing
    ctx.guard(member_crossing, "R04.17", "jwe")  # named members are filled from the value of the same name (generic crossing rule, rules/common.py)
    from .common import forwarding_discipline
    ctx.guard(forwarding_discipline, "R04.11", ['plaintext', 'recipient', 'enc', 'tag', 'cek', 'aad', 'iv', 'ek', 'sender_key', 'protected', 'header'], 65, "jwe")  # arguments are handed on under their own name (generic routing rule, rules/common.py)
    ctx.guard(r04_12)
    from .common import octet_length_lint
    ctx.guard(octet_length_lint, "R04.15", "jwe")  # "every key of the required type, size and curve": P-521 coordinates are 66 octets
    ctx.guard(r04_14, "jwe")
    ctx.guard(r04_9)
    ctx.guard(r04_8)
    ctx.guard(r04_7)
    # "with DEF, for plaintexts up to the decompression limit": the completion gate of the bounded inflater (C17) decides whether a
    # plaintext of exactly the limit still round-trips
    from .c17 import r17_2_5, r17_3
    ctx.guard_as("R04.6", r17_2_5)
    ctx.guard_as("R04.6", r17_3)
    from .c08 import r08_3
    ctx.guard_as("R04.10", r08_3)  # plaintext shapes (empty, block-aligned): AES-CBC with PKCS#7 padding from the library, CBC-HMAC layout
    from .c08 import r08_4
    ctx.guard_as("R04.13", r08_4)  # ECDH-1PU: both sides compute Ze and Zs from the same key pairs (own private x other public), or nothing decrypts
    from .c14 import r14_2 as _r14_2
    from .common import JWE_PRODUCE as _JP, JWE_CONSUME as _JC, entries as _entries, scope_of as _scope_of
    _within = set()
    for _e in _entries(ctx.eng, _JP + _JC):
        _within.update(_scope_of(ctx.eng, _e))
    ctx.guard(_r14_2, "R04.23", _within)  # encryption with a key set and no kid picks a key (use_random reaches guess_key) - or nothing is produced at all
    from .common import every_recipient_tried
    ctx.guard(every_recipient_tried, "R04.22")  # each recipient's key decrypts a multi-recipient message, whatever its position in the list
    from .c08 import r08_5 as _r08_5
    ctx.guard_as("R04.20", _r08_5)  # PBES2: the salt input and the count that were USED are the ones published in the header (else nothing decrypts)
    from .c15 import r15_3 as _r15_3
    ctx.guard_as("R04.21", _r15_3, "jwe")  # every valid header (apu / apv included) is accepted by the algorithm's own header table on both sides
    ctx.guard(r04_5)
    ctx.guard(r04_1)
    ctx.guard(r04_2)
    ctx.guard(r04_3)
    ctx.guard(r04_4)
    ctx.note("undecided remainder: plaintext equality over all alg x enc x zip x curve x length classes is value-level")
