"""Engine facade: builds S1..S4 once per run and hands them to the rules."""
from __future__ import annotations
import os
import time
from typing import Dict, List, Optional

from .program import Program, FunctionInfo, AnalysisError
from .typed import Types
from .callgraph import CallGraph
from .cfg import cfg_of, CFG
from .flow import Flow
from .fold import Folder

DEFAULT_REPO = os.environ.get("JV_REPO", "/repo")

# public API entry points (anchors; resolved through re-exports)
PRODUCE = [("jws", "serialize_compact"), ("jws", "serialize_json"), ("rfc7797", "serialize_compact"),
           ("rfc7797", "serialize_json"), ("jwe", "encrypt_compact"), ("jwe", "encrypt_json"), ("jwt", "encode")]
CONSUME = [("jws", "deserialize_compact"), ("jws", "validate_compact"), ("jws", "deserialize_json"),
           ("rfc7797", "deserialize_compact"), ("rfc7797", "deserialize_json"), ("jwe", "decrypt_compact"),
           ("jwe", "decrypt_json"), ("jwt", "decode")]


class _NoTypes:
    """CHA-only resolution (thorough tier cross-check): every receiver type is unknown"""

    def of(self, m, node):
        from .typed import UNKNOWN
        return UNKNOWN

    def coverage(self):
        return {"modules": 0, "typed_expressions": 0, "mypy_errors": 0}


class Engine:
    def __init__(self, repo: Optional[str] = None, typed: bool = True):
        t0 = time.time()
        self.repo = os.path.abspath(repo or DEFAULT_REPO)
        self.prog = Program(self.repo)
        self.types = Types(self.prog) if typed else _NoTypes()
        self.cg = CallGraph(self.prog, self.types)
        self.flow = Flow(self.prog, self.cg)
        self.build_s = time.time() - t0

    @property
    def folder(self) -> Folder:
        """S7 with the import-time state (registrations) already executed"""
        f = self.__dict__.get("_folder")
        if f is None:
            f = Folder(self.prog)
            f.run_import_time()
            self.__dict__["_folder"] = f
        return f

    def cfg(self, fn: FunctionInfo) -> CFG:
        return cfg_of(fn)

    def entry(self, mod: str, name: str) -> FunctionInfo:
        return self.prog.public_func(mod, name)

    def produce_entries(self) -> List[FunctionInfo]:
        return [self.entry(m, n) for m, n in PRODUCE]

    def consume_entries(self) -> List[FunctionInfo]:
        return [self.entry(m, n) for m, n in CONSUME]

    def operation_entries(self) -> List[FunctionInfo]:
        return self.produce_entries() + self.consume_entries()

    def substrate_facts(self) -> Dict[str, object]:
        return {
            "units_parsed": len(self.prog.modules),
            "functions": sum(1 for _ in self.prog.all_functions()),
            "classes": len(self.prog.classes),
            "call_sites": dict(self.cg.stats),
            "typed_layer": self.types.coverage(),
            "source_digest": self.prog.digest[:16],
            "engine_build_s": round(self.build_s, 2),
        }
