"""Engine facade: builds S1..S4 once per run and hands them to the rules."""
from __future__ import annotations
import ast
import os
import time
from typing import Dict, List, Optional

from .program import Program, FunctionInfo, AnalysisError
from .typed import Types
from .callgraph import CallGraph
from .cfg import cfg_of, CFG
from .flow import Flow
from .fold import Folder

DEFAULT_REPO = os.environ.get("JV_REPO", "/repo")

# public API entry points (anchors; resolved through re-exports)
PRODUCE = [("jws", "serialize_compact"), ("jws", "serialize_json"), ("rfc7797", "serialize_compact"),
           ("rfc7797", "serialize_json"), ("jwe", "encrypt_compact"), ("jwe", "encrypt_json"), ("jwt", "encode")]
CONSUME = [("jws", "deserialize_compact"), ("jws", "validate_compact"), ("jws", "deserialize_json"),
           ("rfc7797", "deserialize_compact"), ("rfc7797", "deserialize_json"), ("jwe", "decrypt_compact"),
           ("jwe", "decrypt_json"), ("jwt", "decode")]


class _NoTypes:
    """CHA-only resolution (thorough tier cross-check): every receiver type is unknown"""

    def of(self, m, node):
        from .typed import UNKNOWN
        return UNKNOWN

    def coverage(self):
        return {"modules": 0, "typed_expressions": 0, "mypy_errors": 0}


def _prune_type_dead_none_tests(prog: Program, types) -> int:
    """`x = E` directly followed by `if x is None: A else: B` where the type checker gives E a type that does not include None: the test
    is dead, the statement becomes B (resp. A for `is not None`).  This is what sentinel threading (canon C24) leaves in the arm that binds
    the real value of an inlined Optional-returning helper.  Runs before any CFG / flow fact is derived."""
    import ast
    n = 0

    def none_test(t):
        if isinstance(t, ast.Compare) and len(t.ops) == 1 and isinstance(t.left, ast.Name) and isinstance(t.comparators[0], ast.Constant) and t.comparators[0].value is None \
                and isinstance(t.ops[0], (ast.Is, ast.IsNot)):
            return t.left.id, isinstance(t.ops[0], ast.Is)
        return None

    def walk(fn, body):
        nonlocal n
        i = 0
        while i < len(body):
            st = body[i]
            for fld in ("body", "orelse", "finalbody"):
                b = getattr(st, fld, None)
                if isinstance(b, list) and b and isinstance(b[0], ast.stmt):
                    walk(fn, b)
            if isinstance(st, ast.Try):
                for h in st.handlers:
                    walk(fn, h.body)
            if isinstance(st, ast.Assign) and len(st.targets) == 1 and isinstance(st.targets[0], ast.Name) and i + 1 < len(body) and isinstance(body[i + 1], ast.If) \
                    and hasattr(st.value, "lineno") and hasattr(st.value, "end_col_offset"):
                nt = none_test(body[i + 1].test)
                if nt is not None and nt[0] == st.targets[0].id:
                    td = types.of(fn.module, st.value)
                    # (`object` is what the checker says when it knows nothing, e.g. TypedDict.get with a key that is not a literal: it includes None)
                    if td.known and not td.any and "builtins.None" not in td.classes and "builtins.object" not in td.classes and td.classes:
                        live = body[i + 1].orelse if nt[1] else body[i + 1].body
                        body[i + 1:i + 2] = live
                        n += 1
                        continue
            i += 1
    for fn in prog.all_functions():
        if isinstance(fn.node, (ast.FunctionDef, ast.AsyncFunctionDef)):
            walk(fn, fn.node.body)
    return n


_PLAIN_MODES = ("CBC", "CTR", "ECB", "OFB", "CFB", "CFB8", "XTS")
_AEAD_MODES = ("GCM",)


def _refine_cipher_contexts(eng) -> int:
    """pyca types `Cipher(...).decryptor()` by the *static* type of the mode: behind an annotation such as `Cipher[Any]` (a helper that builds the
    cipher) the checker picks the first overload, the AEAD context, for every mode.  Where the receiver of update / finalize / ... is a local whose
    one binding is, once locals are resolved, `Cipher(<algorithm>, <Mode>(...)).decryptor()` / `.encryptor()`, the mode named in the source decides:
    a plain mode gives CipherContext, GCM the AEAD context.  (Spelling-independent counterpart of what the type checker does on the direct call.)"""
    import re
    from .rules.common import resolve_all
    n = 0
    for fn in eng.prog.all_functions():
        for s in eng.cg.calls_in(fn):
            if not (isinstance(s.node, ast.Call) and isinstance(s.node.func, ast.Attribute) and s.ext):
                continue
            if not any(x.split(".")[-2] in ("AEADDecryptionContext", "AEADEncryptionContext", "AEADCipherContext", "CipherContext") for x in s.ext if x.count(".") >= 1):
                continue
            try:
                texts = resolve_all(eng, fn, s.node.func.value)
            except Exception:
                continue
            modes = set()
            for t_ in texts:
                m = re.search(r"Cipher\(.*?,\s*(?:modes\.)?([A-Z][A-Za-z0-9]*)\(", t_)
                modes.add(m.group(1) if m else None)
            if len(modes) != 1 or None in modes:
                continue
            mode = modes.pop()
            new = []
            for x in s.ext:
                parts = x.split(".")
                if len(parts) >= 2 and parts[-2] in ("AEADDecryptionContext", "AEADEncryptionContext", "AEADCipherContext") and mode in _PLAIN_MODES:
                    parts[-2] = "CipherContext"
                elif len(parts) >= 2 and parts[-2] == "CipherContext" and mode in _AEAD_MODES:
                    side = [t_ for t_ in texts if ".decryptor()" in t_]
                    parts[-2] = "AEADDecryptionContext" if side else "AEADEncryptionContext"
                new.append(".".join(parts))
            if new != list(s.ext):
                s.ext[:] = new
                n += 1
    return n


class Engine:
    def __init__(self, repo: Optional[str] = None, typed: bool = True):
        t0 = time.time()
        self.repo = os.path.abspath(repo or DEFAULT_REPO)
        self.prog = Program(self.repo)
        self.types = Types(self.prog) if typed else _NoTypes()
        self.type_pruned = _prune_type_dead_none_tests(self.prog, self.types) if typed else 0
        self.cg = CallGraph(self.prog, self.types)
        self.flow = Flow(self.prog, self.cg)
        self.ctx_refined = _refine_cipher_contexts(self)
        self.build_s = time.time() - t0

    @property
    def folder(self) -> Folder:
        """S7 with the import-time state (registrations) already executed"""
        f = self.__dict__.get("_folder")
        if f is None:
            f = Folder(self.prog)
            f.run_import_time()
            self.__dict__["_folder"] = f
        return f

    def cfg(self, fn: FunctionInfo) -> CFG:
        return cfg_of(fn)

    def entry(self, mod: str, name: str) -> FunctionInfo:
        return self.prog.public_func(mod, name)

    def produce_entries(self) -> List[FunctionInfo]:
        return [self.entry(m, n) for m, n in PRODUCE]

    def consume_entries(self) -> List[FunctionInfo]:
        return [self.entry(m, n) for m, n in CONSUME]

    def operation_entries(self) -> List[FunctionInfo]:
        return self.produce_entries() + self.consume_entries()

    def substrate_facts(self) -> Dict[str, object]:
        return {
            "units_parsed": len(self.prog.modules),
            "functions": sum(1 for _ in self.prog.all_functions()),
            "classes": len(self.prog.classes),
            "call_sites": dict(self.cg.stats),
            "typed_layer": self.types.coverage(),
            "source_digest": self.prog.digest[:16],
            "engine_build_s": round(self.build_s, 2),
        }
