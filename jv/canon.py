"""AST canonicalisation applied to every parsed module before any rule looks at it.

The rules must not distinguish spellings with identical behaviour.  The rewrites below are exact equivalences of Python
semantics for the analysed code (evaluation order and the number of evaluations are unchanged), so rules see one spelling:

  C1  not (a OP b)                      -> a NEG(OP) b        for OP in ==, !=, is, is not, in, not in (single comparison)
  C2  if not c: A else: B               -> if c: B else: A    (only when an else branch exists; `elif` chains included)
  C2b if a != b: A else: B              -> if a == b: B else: A   (likewise for `is not`, `not in`)
  C3  t = e ; return t                  -> return e           when t is a local assigned exactly once and read exactly once
  C4  not not c  in a test position     -> c

Positions of the surviving nodes are kept (reports still point into the file); a rewritten node takes the position of the
node it replaces."""
from __future__ import annotations
import ast
from typing import Dict, List

_NEG = {ast.Eq: ast.NotEq, ast.NotEq: ast.Eq, ast.Is: ast.IsNot, ast.IsNot: ast.Is, ast.In: ast.NotIn, ast.NotIn: ast.In}


def _neg_compare(e: ast.expr):
    if isinstance(e, ast.UnaryOp) and isinstance(e.op, ast.Not):
        inner = e.operand
        if isinstance(inner, ast.Compare) and len(inner.ops) == 1 and type(inner.ops[0]) in _NEG:
            new = ast.Compare(left=inner.left, ops=[_NEG[type(inner.ops[0])]()], comparators=inner.comparators)
            return ast.copy_location(new, e)
    return None


class _Canon(ast.NodeTransformer):
    def visit_UnaryOp(self, node: ast.UnaryOp):
        self.generic_visit(node)
        r = _neg_compare(node)
        return r if r is not None else node

    def _test(self, t: ast.expr) -> ast.expr:
        # C4 in test position
        while isinstance(t, ast.UnaryOp) and isinstance(t.op, ast.Not) and isinstance(t.operand, ast.UnaryOp) and isinstance(t.operand.op, ast.Not):
            t = t.operand.operand
        return t

    def visit_If(self, node: ast.If):
        self.generic_visit(node)
        node.test = self._test(node.test)
        if node.orelse and isinstance(node.test, ast.UnaryOp) and isinstance(node.test.op, ast.Not):
            node.test = node.test.operand
            node.body, node.orelse = node.orelse, node.body
        # C2b: a negative comparison with an else branch is the positive comparison with the branches swapped
        if node.orelse and isinstance(node.test, ast.Compare) and len(node.test.ops) == 1 and isinstance(node.test.ops[0], (ast.IsNot, ast.NotEq, ast.NotIn)):
            t = node.test
            node.test = ast.copy_location(ast.Compare(left=t.left, ops=[_NEG[type(t.ops[0])]()], comparators=t.comparators), t)
            node.body, node.orelse = node.orelse, node.body
        return node

    def visit_While(self, node: ast.While):
        self.generic_visit(node)
        node.test = self._test(node.test)
        return node

    def visit_IfExp(self, node: ast.IfExp):
        self.generic_visit(node)
        if isinstance(node.test, ast.UnaryOp) and isinstance(node.test.op, ast.Not):
            node.test = node.test.operand
            node.body, node.orelse = node.orelse, node.body
        return node


def _inline_return_temps(fn: ast.AST) -> None:
    """C3 within one function (nested functions handled by their own call)"""
    stores: Dict[str, int] = {}
    loads: Dict[str, int] = {}
    declared = set()

    def own(n):
        stack = list(ast.iter_child_nodes(n))
        while stack:
            x = stack.pop()
            yield x
            if isinstance(x, (ast.FunctionDef, ast.AsyncFunctionDef, ast.Lambda, ast.ClassDef)):
                # names read inside nested scopes count as reads
                for y in ast.walk(x):
                    if isinstance(y, ast.Name):
                        loads[y.id] = loads.get(y.id, 0) + 2
                continue
            stack.extend(ast.iter_child_nodes(x))
    nodes = list(own(fn))
    for x in nodes:
        if isinstance(x, ast.Name):
            if isinstance(x.ctx, ast.Store):
                stores[x.id] = stores.get(x.id, 0) + 1
            elif isinstance(x.ctx, ast.Load):
                loads[x.id] = loads.get(x.id, 0) + 1
            else:
                stores[x.id] = stores.get(x.id, 0) + 2
        elif isinstance(x, (ast.Global, ast.Nonlocal)):
            declared |= set(x.names)
        elif isinstance(x, ast.ExceptHandler) and x.name:
            stores[x.name] = stores.get(x.name, 0) + 2
        elif isinstance(x, ast.AugAssign) and isinstance(x.target, ast.Name):
            stores[x.target.id] = stores.get(x.target.id, 0) + 2
    params = set()
    a = getattr(fn, "args", None)
    if a is not None:
        for p in a.args + a.kwonlyargs + a.posonlyargs:
            params.add(p.arg)
        if a.vararg:
            params.add(a.vararg.arg)
        if a.kwarg:
            params.add(a.kwarg.arg)

    def fix(lst: List[ast.stmt]) -> None:
        i = 0
        while i + 1 < len(lst):
            s0, s1 = lst[i], lst[i + 1]
            if isinstance(s0, ast.Assign) and len(s0.targets) == 1 and isinstance(s0.targets[0], ast.Name) and isinstance(s1, ast.Return) \
                    and isinstance(s1.value, ast.Name) and s1.value.id == s0.targets[0].id:
                t = s0.targets[0].id
                if stores.get(t, 0) == 1 and loads.get(t, 0) == 1 and t not in params and t not in declared:
                    lst[i:i + 2] = [ast.copy_location(ast.Return(value=s0.value), s0)]
                    continue
            i += 1
    for x in [fn] + nodes:
        for fld in ("body", "orelse", "finalbody"):
            lst = getattr(x, fld, None)
            if isinstance(lst, list) and lst and isinstance(lst[0], ast.stmt):
                fix(lst)
        if isinstance(x, ast.Try):
            for h in x.handlers:
                fix(h.body)


def canonicalise(tree: ast.Module) -> ast.Module:
    tree = _Canon().visit(tree)
    for n in ast.walk(tree):
        if isinstance(n, (ast.FunctionDef, ast.AsyncFunctionDef)):
            _inline_return_temps(n)
    ast.fix_missing_locations(tree)
    return tree
