"""AST canonicalisation applied to every parsed module before any rule looks at it.

The rules must not distinguish spellings with identical behaviour.  The rewrites below are exact equivalences of Python
semantics for the analysed code (evaluation order and the number of evaluations are unchanged), so rules see one spelling:

  C1  not (a OP b)                      -> a NEG(OP) b        for OP in ==, !=, is, is not, in, not in (single comparison)
  C2  if not c: A else: B               -> if c: B else: A    (only when an else branch exists; `elif` chains included)
  C2b if a != b: A else: B              -> if a == b: B else: A   (likewise for `is not`, `not in`)
  C3  t = e ; return t                  -> return e           when t is a local assigned exactly once and read exactly once
  C4  not not c  in a test position     -> c
  C6  'lit' == x                        -> x == 'lit'         (likewise !=)
  C7  isinstance(x, A) or isinstance(x, B) -> isinstance(x, (A, B))
  C9  dict(k=v, ...)                    -> {"k": v, ...}      (keyword arguments only)
  C8  if a: (if b: S)                   -> if a and b: S      (no else branches)
  C5  t = X ; S(t)                      -> S(X)               when t is a single-assignment, single-use local read first in S

Positions of the surviving nodes are kept (reports still point into the file); a rewritten node takes the position of the
node it replaces."""
from __future__ import annotations
import ast
import copy
import os
from typing import Any, Dict, List, Optional, Tuple

_NEG = {ast.Eq: ast.NotEq, ast.NotEq: ast.Eq, ast.Is: ast.IsNot, ast.IsNot: ast.Is, ast.In: ast.NotIn, ast.NotIn: ast.In}


def _neg_compare(e: ast.expr):
    if isinstance(e, ast.UnaryOp) and isinstance(e.op, ast.Not):
        inner = e.operand
        if isinstance(inner, ast.Compare) and len(inner.ops) == 1 and type(inner.ops[0]) in _NEG:
            new = ast.Compare(left=inner.left, ops=[_NEG[type(inner.ops[0])]()], comparators=inner.comparators)
            return ast.copy_location(new, e)
    return None


def _is_isinstance(e: ast.AST) -> bool:
    return isinstance(e, ast.Call) and isinstance(e.func, ast.Name) and e.func.id == "isinstance" and len(e.args) == 2 and not e.keywords


def _pure_chain(e: ast.AST) -> bool:
    while isinstance(e, ast.Attribute):
        e = e.value
    return isinstance(e, ast.Name)


class _Canon(ast.NodeTransformer):
    def visit_Compare(self, node: ast.Compare):
        self.generic_visit(node)
        # C6: a literal on the left of == / != moves to the right ('PEM' == x  ->  x == 'PEM')
        if len(node.ops) == 1 and isinstance(node.ops[0], (ast.Eq, ast.NotEq)) and isinstance(node.left, ast.Constant) and not isinstance(node.comparators[0], ast.Constant):
            node.left, node.comparators = node.comparators[0], [node.left]
        return node

    def visit_BoolOp(self, node: ast.BoolOp):
        self.generic_visit(node)
        # C7: isinstance(x, A) or isinstance(x, B)  ->  isinstance(x, (A, B))   (x a plain name / attribute chain)
        if isinstance(node.op, ast.Or):
            out: List[ast.expr] = []
            for v in node.values:
                prev = out[-1] if out else None
                if _is_isinstance(v) and prev is not None and _is_isinstance(prev) and ast.dump(v.args[0]) == ast.dump(prev.args[0]) and _pure_chain(v.args[0]):
                    a = list(prev.args[1].elts) if isinstance(prev.args[1], ast.Tuple) else [prev.args[1]]
                    b = list(v.args[1].elts) if isinstance(v.args[1], ast.Tuple) else [v.args[1]]
                    merged = ast.Call(func=prev.func, args=[prev.args[0], ast.Tuple(elts=a + b, ctx=ast.Load())], keywords=[])
                    out[-1] = ast.copy_location(merged, prev)
                else:
                    out.append(v)
            if len(out) == 1:
                return out[0]
            node.values = out
        return node

    def visit_Call(self, node: ast.Call):
        self.generic_visit(node)
        # C9b: X.update(k=v, ...) with keyword arguments only  ->  X.update({"k": v, ...})  (dict.update accepts both spellings)
        if isinstance(node.func, ast.Attribute) and node.func.attr == "update" and not node.args and node.keywords and all(k.arg is not None for k in node.keywords):
            d = ast.Dict(keys=[ast.copy_location(ast.Constant(value=k.arg), k.value) for k in node.keywords], values=[k.value for k in node.keywords])
            node.args = [ast.copy_location(d, node)]
            node.keywords = []
            return node
        # C9: dict(k=v, ...) with keyword arguments only  ->  {"k": v, ...}
        if isinstance(node.func, ast.Name) and node.func.id == "dict" and not node.args and node.keywords and all(k.arg is not None for k in node.keywords):
            d = ast.Dict(keys=[ast.copy_location(ast.Constant(value=k.arg), k.value) for k in node.keywords], values=[k.value for k in node.keywords])
            return ast.copy_location(d, node)
        return self.visit_Call_spreads(node)

    def visit_BinOp(self, node: ast.BinOp):
        self.generic_visit(node)
        # C23: integer constant arithmetic left behind by folded named constants: `8 - 1` -> `7`, `(x + 8) - 1` -> `x + 7`
        def ci(e):
            return e.value if isinstance(e, ast.Constant) and isinstance(e.value, int) and not isinstance(e.value, bool) else None
        a, b = ci(node.left), ci(node.right)
        if a is not None and b is not None:
            try:
                if isinstance(node.op, ast.Add):
                    v = a + b
                elif isinstance(node.op, ast.Sub):
                    v = a - b
                elif isinstance(node.op, ast.Mult):
                    v = a * b
                elif isinstance(node.op, ast.FloorDiv) and b != 0:
                    v = a // b
                else:
                    return node
            except Exception:
                return node
            return ast.copy_location(ast.Constant(value=v), node)
        if b is not None and isinstance(node.op, (ast.Add, ast.Sub)) and isinstance(node.left, ast.BinOp) and isinstance(node.left.op, (ast.Add, ast.Sub)) and ci(node.left.right) is not None:
            inner = ci(node.left.right) * (1 if isinstance(node.left.op, ast.Add) else -1)
            outer = b * (1 if isinstance(node.op, ast.Add) else -1)
            tot = inner + outer
            if tot == 0:
                return node.left.left
            new = ast.BinOp(left=node.left.left, op=ast.Add() if tot > 0 else ast.Sub(), right=ast.copy_location(ast.Constant(value=abs(tot)), node.right))
            return ast.copy_location(new, node)
        return node

    def visit_Call_spreads(self, node: ast.Call):
        # f(**{"a": x, "b": y}) is f(a=x, b=y) when the keys are identifier constants
        kws = []
        for k in node.keywords:
            if k.arg is None and isinstance(k.value, ast.Dict) and k.value.keys and all(isinstance(q, ast.Constant) and isinstance(q.value, str) and q.value.isidentifier() for q in k.value.keys):
                kws.extend(ast.keyword(arg=q.value, value=v) for q, v in zip(k.value.keys, k.value.values))
            else:
                kws.append(k)
        node.keywords = kws
        # getattr(x, "name") with a constant identifier and no default is x.name
        if isinstance(node.func, ast.Name) and node.func.id == "getattr" and len(node.args) == 2 and not node.keywords and isinstance(node.args[1], ast.Constant) \
                and isinstance(node.args[1].value, str) and node.args[1].value.isidentifier():
            return ast.copy_location(ast.Attribute(value=node.args[0], attr=node.args[1].value, ctx=ast.Load()), node)
        return node

    def visit_Dict(self, node: ast.Dict):
        self.generic_visit(node)
        # `**{}` inside a dict display adds nothing
        keep = [(k, v) for k, v in zip(node.keys, node.values) if not (k is None and isinstance(v, ast.Dict) and not v.keys)]
        # `**{"a": x, "b": y}` inside a dict display is its entries in place (same evaluation order, later keys still win)
        flat = []
        for k, v in keep:
            if k is None and isinstance(v, ast.Dict) and all(q is not None for q in v.keys):
                flat.extend(zip(v.keys, v.values))
            else:
                flat.append((k, v))
        if len(flat) != len(node.keys) or any(a is not b for (a, _x), b in zip(flat, node.keys)):
            node.keys = [k for k, _v in flat]
            node.values = [v for _k, v in flat]
        return node

    def visit_UnaryOp(self, node: ast.UnaryOp):
        self.generic_visit(node)
        r = _neg_compare(node)
        return r if r is not None else node

    def _test(self, t: ast.expr) -> ast.expr:
        # C4 in test position
        while isinstance(t, ast.UnaryOp) and isinstance(t.op, ast.Not) and isinstance(t.operand, ast.UnaryOp) and isinstance(t.operand.op, ast.Not):
            t = t.operand.operand
        return t

    def visit_If(self, node: ast.If):
        self.generic_visit(node)
        node.test = self._test(node.test)
        # C21: a constant test (what is left of a flag parameter after a helper was inlined: `if True: A else: B`) selects its branch
        if isinstance(node.test, ast.Constant):
            taken = node.body if node.test.value else node.orelse
            return taken if taken else ast.copy_location(ast.Pass(), node)
        if node.orelse and isinstance(node.test, ast.UnaryOp) and isinstance(node.test.op, ast.Not):
            node.test = node.test.operand
            node.body, node.orelse = node.orelse, node.body
        # C8: `if a:` whose whole body is `if b: S` (neither has an else)  ->  `if a and b: S`
        while not node.orelse and len(node.body) == 1 and isinstance(node.body[0], ast.If) and not node.body[0].orelse:
            inner = node.body[0]
            vals = (list(node.test.values) if isinstance(node.test, ast.BoolOp) and isinstance(node.test.op, ast.And) else [node.test]) + \
                   (list(inner.test.values) if isinstance(inner.test, ast.BoolOp) and isinstance(inner.test.op, ast.And) else [inner.test])
            node.test = ast.copy_location(ast.BoolOp(op=ast.And(), values=vals), node.test)
            node.body = inner.body
        # C13: an if / else whose test is an `or` / `and` of negative operands only is the De Morgan dual with the branches swapped
        if node.orelse and isinstance(node.test, ast.BoolOp) and all(_negative(v) for v in node.test.values):
            dual = ast.And() if isinstance(node.test.op, ast.Or) else ast.Or()
            node.test = ast.copy_location(ast.BoolOp(op=dual, values=[_negate(v) for v in node.test.values]), node.test)
            node.body, node.orelse = node.orelse, node.body
        # C2b: a negative comparison with an else branch is the positive comparison with the branches swapped
        if node.orelse and isinstance(node.test, ast.Compare) and len(node.test.ops) == 1 and isinstance(node.test.ops[0], (ast.IsNot, ast.NotEq, ast.NotIn)):
            t = node.test
            node.test = ast.copy_location(ast.Compare(left=t.left, ops=[_NEG[type(t.ops[0])]()], comparators=t.comparators), t)
            node.body, node.orelse = node.orelse, node.body
        return node

    def visit_While(self, node: ast.While):
        self.generic_visit(node)
        node.test = self._test(node.test)
        return node

    def visit_IfExp(self, node: ast.IfExp):
        self.generic_visit(node)
        if isinstance(node.test, ast.UnaryOp) and isinstance(node.test.op, ast.Not):
            node.test = node.test.operand
            node.body, node.orelse = node.orelse, node.body
        return node


def _inline_return_temps(fn: ast.AST) -> None:
    """C3 within one function (nested functions handled by their own call)"""
    stores: Dict[str, int] = {}
    loads: Dict[str, int] = {}
    declared = set()

    def own(n):
        stack = list(ast.iter_child_nodes(n))
        while stack:
            x = stack.pop()
            yield x
            if isinstance(x, (ast.FunctionDef, ast.AsyncFunctionDef, ast.Lambda, ast.ClassDef)):
                # names read inside nested scopes count as reads
                for y in ast.walk(x):
                    if isinstance(y, ast.Name):
                        loads[y.id] = loads.get(y.id, 0) + 2
                continue
            stack.extend(ast.iter_child_nodes(x))
    nodes = list(own(fn))
    for x in nodes:
        if isinstance(x, ast.Name):
            if isinstance(x.ctx, ast.Store):
                stores[x.id] = stores.get(x.id, 0) + 1
            elif isinstance(x.ctx, ast.Load):
                loads[x.id] = loads.get(x.id, 0) + 1
            else:
                stores[x.id] = stores.get(x.id, 0) + 2
        elif isinstance(x, (ast.Global, ast.Nonlocal)):
            declared |= set(x.names)
        elif isinstance(x, ast.ExceptHandler) and x.name:
            stores[x.name] = stores.get(x.name, 0) + 2
        elif isinstance(x, ast.AugAssign) and isinstance(x.target, ast.Name):
            stores[x.target.id] = stores.get(x.target.id, 0) + 2
    params = set()
    a = getattr(fn, "args", None)
    if a is not None:
        for p in a.args + a.kwonlyargs + a.posonlyargs:
            params.add(p.arg)
        if a.vararg:
            params.add(a.vararg.arg)
        if a.kwarg:
            params.add(a.kwarg.arg)

    def fix(lst: List[ast.stmt]) -> None:
        i = 0
        while i + 1 < len(lst):
            s0, s1 = lst[i], lst[i + 1]
            if isinstance(s0, ast.Assign) and len(s0.targets) == 1 and isinstance(s0.targets[0], ast.Name) and isinstance(s1, ast.Return) \
                    and isinstance(s1.value, ast.Name) and s1.value.id == s0.targets[0].id:
                t = s0.targets[0].id
                if stores.get(t, 0) == 1 and loads.get(t, 0) == 1 and t not in params and t not in declared:
                    lst[i:i + 2] = [ast.copy_location(ast.Return(value=s0.value), s0)]
                    continue
            i += 1
    for x in [fn] + nodes:
        for fld in ("body", "orelse", "finalbody"):
            lst = getattr(x, fld, None)
            if isinstance(lst, list) and lst and isinstance(lst[0], ast.stmt):
                fix(lst)
        if isinstance(x, ast.Try):
            for h in x.handlers:
                fix(h.body)


def _pure(e: ast.AST) -> bool:
    if isinstance(e, (ast.Name, ast.Constant)):
        return True
    if isinstance(e, ast.Attribute):
        return _pure(e.value)
    return False


def _first_impure_is(e: ast.AST, name: str) -> bool:
    """evaluating `e` left to right, is the first thing that is not a plain name / constant / attribute chain the load of
    `name`, at an unconditionally evaluated position?  (then `name = X; stmt(e)` equals stmt(e[name := X]))"""
    state = {"found": False, "blocked": False}

    def visit(x: ast.AST, cond: bool) -> None:
        if state["found"] or state["blocked"]:
            return
        if isinstance(x, ast.Name):
            if x.id == name and isinstance(x.ctx, ast.Load):
                if cond:
                    state["blocked"] = True
                else:
                    state["found"] = True
            return
        if isinstance(x, ast.Constant):
            return
        if isinstance(x, ast.Attribute):
            visit(x.value, cond)
            if not _pure(x.value) and not state["found"]:
                state["blocked"] = True
            return
        if isinstance(x, ast.Call):
            visit(x.func, cond)
            for a in x.args:
                visit(a.value if isinstance(a, ast.Starred) else a, cond)
            for k in x.keywords:
                visit(k.value, cond)
            if not state["found"]:
                state["blocked"] = True  # the call itself happens before the name is reached
            return
        if isinstance(x, ast.BinOp):
            visit(x.left, cond)
            visit(x.right, cond)
            if not state["found"]:
                state["blocked"] = True
            return
        if isinstance(x, ast.Subscript):
            visit(x.value, cond)
            visit(x.slice, cond)
            if not state["found"]:
                state["blocked"] = True
            return
        if isinstance(x, ast.Compare):
            visit(x.left, cond)
            for c in x.comparators[:1]:
                visit(c, cond)
            if not state["found"]:
                state["blocked"] = True
            return
        if isinstance(x, (ast.Tuple, ast.List)):
            for el in x.elts:
                visit(el, cond)
            return
        if isinstance(x, ast.UnaryOp):
            visit(x.operand, cond)
            return
        if isinstance(x, ast.BoolOp):
            visit(x.values[0], cond)
            for v in x.values[1:]:
                visit(v, True)
            return
        # anything else (IfExp, comprehensions, lambdas, f-strings, dict displays ...): do not look inside
        if any(isinstance(y, ast.Name) and y.id == name for y in ast.walk(x)):
            state["blocked"] = True
        else:
            state["blocked"] = state["blocked"] or not _pure(x)
    visit(e, False)
    return state["found"] and not state["blocked"]


def _inline_single_use_temps(fn: ast.AST) -> None:
    """C5: `t = X ; S(t)` -> `S(X)` when t is a local assigned exactly once, read exactly once, in the statement that directly
    follows, at the position that is evaluated first (so that evaluation order is unchanged)"""
    import copy
    changed = True
    rounds = 0
    while changed and rounds < 8:
        changed = False
        rounds += 1
        stores: Dict[str, int] = {}
        loads: Dict[str, int] = {}
        declared = set()
        nodes: List[ast.AST] = []
        stack = list(ast.iter_child_nodes(fn))
        while stack:
            x = stack.pop()
            nodes.append(x)
            if isinstance(x, (ast.FunctionDef, ast.AsyncFunctionDef, ast.Lambda, ast.ClassDef, ast.ListComp, ast.SetComp, ast.DictComp, ast.GeneratorExp)):
                for y in ast.walk(x):
                    if isinstance(y, ast.Name):
                        loads[y.id] = loads.get(y.id, 0) + 2
                        stores[y.id] = stores.get(y.id, 0) + (2 if isinstance(y.ctx, ast.Store) else 0)
                continue
            stack.extend(ast.iter_child_nodes(x))
        for x in nodes:
            if isinstance(x, ast.Name):
                if isinstance(x.ctx, ast.Store):
                    stores[x.id] = stores.get(x.id, 0) + 1
                elif isinstance(x.ctx, ast.Load):
                    loads[x.id] = loads.get(x.id, 0) + 1
                else:
                    stores[x.id] = stores.get(x.id, 0) + 2
            elif isinstance(x, (ast.Global, ast.Nonlocal)):
                declared |= set(x.names)
            elif isinstance(x, ast.ExceptHandler) and x.name:
                stores[x.name] = stores.get(x.name, 0) + 2
            elif isinstance(x, ast.AugAssign) and isinstance(x.target, ast.Name):
                stores[x.target.id] = stores.get(x.target.id, 0) + 2
        params = set()
        a = getattr(fn, "args", None)
        if a is not None:
            for p in a.args + a.kwonlyargs + a.posonlyargs:
                params.add(p.arg)
            if a.vararg:
                params.add(a.vararg.arg)
            if a.kwarg:
                params.add(a.kwarg.arg)

        def fix(lst: List[ast.stmt]) -> bool:
            i = 0
            while i + 1 < len(lst):
                s0, s1 = lst[i], lst[i + 1]
                head = {ast.Assign: "value", ast.Return: "value", ast.Expr: "value", ast.If: "test", ast.Raise: "exc", ast.Assert: "test", ast.For: "iter"}.get(type(s1))
                if isinstance(s0, ast.Assign) and len(s0.targets) == 1 and isinstance(s0.targets[0], ast.Name) and head is not None \
                        and getattr(s1, head, None) is not None:
                    t = s0.targets[0].id
                    hv = getattr(s1, head)
                    if stores.get(t, 0) == 1 and loads.get(t, 0) == 1 and t not in params and t not in declared and not isinstance(s0.value, (ast.Constant, ast.Name)) \
                            and _first_impure_is(hv, t) and not (isinstance(s1, ast.Assign) and any(isinstance(y, ast.Name) and y.id == t for tg in s1.targets for y in ast.walk(tg))):
                        val = s0.value

                        class Sub(ast.NodeTransformer):
                            def visit_Name(self, n: ast.Name):
                                if n.id == t and isinstance(n.ctx, ast.Load):
                                    return val
                                return n
                        setattr(s1, head, Sub().visit(hv))
                        del lst[i]
                        return True
                i += 1
            return False
        for x in [fn] + nodes:
            for fld in ("body", "orelse", "finalbody"):
                lst = getattr(x, fld, None)
                if isinstance(lst, list) and lst and isinstance(lst[0], ast.stmt):
                    if fix(lst):
                        changed = True
                        break
            if changed:
                break
            if isinstance(x, ast.Try):
                for h in x.handlers:
                    if fix(h.body):
                        changed = True
                        break
            if changed:
                break


def _leaves(body, in_loop: bool) -> bool:
    """every path through body ends in return / raise (or, inside a loop body, continue / break)"""
    if not body:
        return False
    last = body[-1]
    if isinstance(last, (ast.Return, ast.Raise)):
        return True
    if in_loop and isinstance(last, (ast.Continue, ast.Break)):
        return True
    if isinstance(last, ast.If):
        return _leaves(last.body, in_loop) and _leaves(last.orelse, in_loop)
    return False


def _nest_guards(body, in_loop: bool):
    """C11: `if c: <leaves>` followed by more statements  ->  `if c: <leaves> else: <the rest>` (guard clauses and nested if / else are one form)"""
    out = []
    for i, st in enumerate(body):
        for fld in ("body", "orelse", "finalbody"):
            b = getattr(st, fld, None)
            if isinstance(b, list) and b and isinstance(b[0], ast.stmt) and not isinstance(st, (ast.FunctionDef, ast.AsyncFunctionDef, ast.ClassDef)):
                loop = isinstance(st, (ast.For, ast.While, ast.AsyncFor)) and fld == "body"
                setattr(st, fld, _nest_guards(b, loop or (in_loop and not isinstance(st, (ast.For, ast.While, ast.AsyncFor)))))
        if isinstance(st, ast.Try):
            for h in st.handlers:
                h.body = _nest_guards(h.body, in_loop)
        if isinstance(st, (ast.FunctionDef, ast.AsyncFunctionDef)):
            st.body = _nest_guards(st.body, False)
        elif isinstance(st, ast.ClassDef):
            st.body = _nest_guards(st.body, False)
        rest = body[i + 1:]
        if isinstance(st, ast.If) and not st.orelse and rest and _leaves(st.body, in_loop):
            st.orelse = _nest_guards(rest, in_loop)
            out.append(st)
            return out
        out.append(st)
    return out


def _negative(e: ast.expr) -> bool:
    return (isinstance(e, ast.UnaryOp) and isinstance(e.op, ast.Not)) or \
        (isinstance(e, ast.Compare) and len(e.ops) == 1 and isinstance(e.ops[0], (ast.IsNot, ast.NotEq, ast.NotIn)))


def _negate(e: ast.expr) -> ast.expr:
    if isinstance(e, ast.UnaryOp) and isinstance(e.op, ast.Not):
        return e.operand
    if isinstance(e, ast.Compare) and len(e.ops) == 1 and type(e.ops[0]) in _NEG:
        return ast.copy_location(ast.Compare(left=e.left, ops=[_NEG[type(e.ops[0])]()], comparators=e.comparators), e)
    return ast.copy_location(ast.UnaryOp(op=ast.Not(), operand=e), e)


class _Split(ast.NodeTransformer):
    """C12: a conditional expression that is the whole value of an assignment / return becomes an if / else statement"""
    def _stmts(self, body):
        out = []
        for st in body:
            st = self.visit(st)
            if isinstance(st, ast.Assign) and isinstance(st.value, ast.IfExp) and len(st.targets) == 1 and (isinstance(st.targets[0], ast.Name) or (
                    isinstance(st.targets[0], ast.Tuple) and all(isinstance(t_, ast.Name) for t_ in st.targets[0].elts)) or (
                    isinstance(st.targets[0], ast.Attribute) and isinstance(st.targets[0].value, ast.Name))):
                import copy as _copy
                v = st.value
                a = ast.copy_location(ast.Assign(targets=[st.targets[0]], value=v.body, lineno=st.lineno), st)
                b = ast.copy_location(ast.Assign(targets=[_copy.deepcopy(st.targets[0])], value=v.orelse, lineno=st.lineno), st)
                out.append(ast.copy_location(ast.If(test=v.test, body=[a], orelse=[b]), st))
            elif isinstance(st, ast.Return) and isinstance(st.value, ast.IfExp):
                v = st.value
                out.append(ast.copy_location(ast.If(test=v.test, body=[ast.copy_location(ast.Return(value=v.body), st)], orelse=[ast.copy_location(ast.Return(value=v.orelse), st)]), st))
            elif isinstance(st, (ast.Assign, ast.Return, ast.Expr)) and st.value is not None and self._single_leading_ifexp(st.value) is not None \
                    and (not isinstance(st, ast.Assign) or (len(st.targets) == 1 and isinstance(st.targets[0], ast.Name))):
                # C12b: one conditional expression deeper inside the value, with nothing impure evaluated before its test: the statement is duplicated into
                # the two branches (`x = f(a if c else b)`  ->  `if c: x = f(a) else: x = f(b)`)
                import copy
                ie = self._single_leading_ifexp(st.value)

                def variant(branch):
                    st2 = copy.deepcopy(st)
                    ie2 = self._single_leading_ifexp(st2.value)

                    class Rp(ast.NodeTransformer):
                        def visit_IfExp(self, n):
                            return getattr(n, branch) if n is ie2 else n
                    st2.value = Rp().visit(st2.value)
                    return st2
                out.append(ast.copy_location(ast.If(test=ie.test, body=[variant("body")], orelse=[variant("orelse")]), st))
            else:
                out.append(st)
        return out

    @staticmethod
    def _single_leading_ifexp(value: ast.AST):
        ies = [x for x in ast.walk(value) if isinstance(x, ast.IfExp)]
        if len(ies) != 1 or ies[0] is value:
            return None
        ie = ies[0]
        if any(isinstance(x, (ast.Lambda, ast.ListComp, ast.SetComp, ast.DictComp, ast.GeneratorExp, ast.BoolOp, ast.NamedExpr, ast.Await, ast.Yield)) for x in ast.walk(value)):
            return None
        # everything evaluated before the conditional expression must be pure: walk in evaluation order until it is reached
        done = [False]

        def pure_before(x) -> bool:
            if x is ie:
                done[0] = True
                return True
            if isinstance(x, (ast.Name, ast.Constant)):
                return True
            if isinstance(x, ast.Attribute):
                return pure_before(x.value)
            if isinstance(x, ast.Call):
                if not pure_before(x.func):
                    return False
                for a in list(x.args) + [k.value for k in x.keywords]:
                    if done[0]:
                        return True
                    if not pure_before(a):
                        return False
                return done[0]  # the call itself happens after its arguments: fine only if the conditional expression was among them
            if isinstance(x, (ast.Tuple, ast.List)):
                for e in x.elts:
                    if done[0]:
                        return True
                    if not pure_before(e):
                        return False
                return True
            if isinstance(x, ast.BinOp):
                return pure_before(x.left) and (done[0] or pure_before(x.right))
            if isinstance(x, ast.Subscript):
                return pure_before(x.value) and (done[0] or pure_before(x.slice))
            return False
        ok = pure_before(value)
        return ie if ok and done[0] else None

    def generic_visit(self, node):
        for fld in ("body", "orelse", "finalbody"):
            b = getattr(node, fld, None)
            if isinstance(b, list) and b and isinstance(b[0], ast.stmt):
                setattr(node, fld, self._stmts(b))
        if isinstance(node, ast.Try):
            for h in node.handlers:
                h.body = self._stmts(h.body)
        return node


def _typing_names(tree: ast.AST):
    """-> (names bound to typing.cast in this module, names bound to the typing module)"""
    casts, mods = set(), set()
    for st in getattr(tree, "body", []):
        if isinstance(st, ast.ImportFrom) and st.module in ("typing", "typing_extensions") and st.level == 0:
            for a in st.names:
                if a.name == "cast":
                    casts.add(a.asname or a.name)
        elif isinstance(st, ast.Import):
            for a in st.names:
                if a.name in ("typing", "typing_extensions"):
                    mods.add(a.asname or a.name)
    return casts, mods


class _StripCasts(ast.NodeTransformer):
    """`typing.cast(T, v)` is `v` (the call returns its second argument unchanged and evaluates nothing else that matters: `T` is a type expression)."""
    def __init__(self, names) -> None:
        self.casts, self.mods = names

    def visit_Call(self, node: ast.Call):
        self.generic_visit(node)
        f = node.func
        is_cast = (isinstance(f, ast.Name) and f.id in self.casts) or (isinstance(f, ast.Attribute) and f.attr == "cast" and isinstance(f.value, ast.Name) and f.value.id in self.mods)
        if is_cast and len(node.args) == 2 and not node.keywords and not any(isinstance(a, ast.Starred) for a in node.args):
            return node.args[1]
        return node


class _DropAnn(ast.NodeTransformer):
    """C14: `x: T = v` outside class bodies is `x = v` (annotations of locals and module-level names are not behaviour)"""
    def visit_ClassDef(self, node: ast.ClassDef):
        for st in node.body:
            if isinstance(st, (ast.FunctionDef, ast.AsyncFunctionDef)):
                self.visit(st)
        return node

    def __init__(self) -> None:
        self._depth = 0

    def visit_FunctionDef(self, node):
        self._depth += 1
        self.generic_visit(node)
        self._depth -= 1
        if not node.body:
            node.body = [ast.copy_location(ast.Pass(), node)]
        return node
    visit_AsyncFunctionDef = visit_FunctionDef

    def visit_AnnAssign(self, node: ast.AnnAssign):
        self.generic_visit(node)
        if node.value is not None and isinstance(node.target, (ast.Name, ast.Attribute)):
            return ast.copy_location(ast.Assign(targets=[node.target], value=node.value, lineno=node.lineno), node)
        if node.value is None and isinstance(node.target, ast.Name) and self._depth > 0:
            return ast.copy_location(ast.Pass(), node)  # a bare declaration of a local (`key: Any`) binds nothing; C-pass removal follows
        return node


def _static_elem(e: ast.AST) -> bool:
    if isinstance(e, (ast.Constant, ast.Name)):
        return True
    if isinstance(e, ast.Lambda):
        a = e.args
        return not (a.defaults or a.kw_defaults or a.vararg or a.kwarg or a.kwonlyargs or a.posonlyargs) and not any(
            isinstance(x, (ast.Lambda, ast.NamedExpr, ast.Yield, ast.YieldFrom, ast.Await)) for x in ast.walk(e.body))
    if isinstance(e, ast.Attribute):
        return _static_elem(e.value)
    if isinstance(e, (ast.Tuple, ast.List)):
        return all(_static_elem(x) for x in e.elts)
    if isinstance(e, ast.UnaryOp) and isinstance(e.op, (ast.USub, ast.UAdd)):
        return _static_elem(e.operand)
    return False


def _unroll_table_loops(tree: ast.Module, known: set) -> None:
    """C15: `for a, b in TABLE: body`, TABLE a module-level tuple / list display that is new to the rule catalogue, of at most 8 static elements that is bound once and never
    mutated, body without break / continue / else, loop variables not used after the loop  ->  the bodies in sequence with the elements substituted.
    (An if / elif chain over classes or names written as a table-driven loop is the chain again.)"""
    import copy
    tables = {}
    stores = {}
    for x in ast.walk(tree):
        if isinstance(x, ast.Name) and isinstance(x.ctx, (ast.Store, ast.Del)):
            stores[x.id] = stores.get(x.id, 0) + 1
    for st in tree.body:
        if isinstance(st, ast.AnnAssign) and st.value is not None and isinstance(st.target, ast.Name):
            st = ast.copy_location(ast.Assign(targets=[st.target], value=st.value), st)  # an annotated table is a table
        if isinstance(st, ast.Assign) and len(st.targets) == 1 and isinstance(st.targets[0], ast.Name) and isinstance(st.value, (ast.Tuple, ast.List)) \
                and 0 < len(st.value.elts) <= 8 and all(_static_elem(e) for e in st.value.elts) and stores.get(st.targets[0].id) == 1 and st.targets[0].id not in known:
            nm = st.targets[0].id
            mutated = any(isinstance(x, ast.Attribute) and isinstance(x.value, ast.Name) and x.value.id == nm and x.attr in ("append", "extend", "insert", "pop", "remove", "clear", "sort", "reverse")
                          for x in ast.walk(tree)) or any(isinstance(x, ast.Subscript) and isinstance(x.ctx, (ast.Store, ast.Del)) and isinstance(x.value, ast.Name) and x.value.id == nm for x in ast.walk(tree))
            if not mutated:
                tables[nm] = st.value

    def derived_table(v):
        """`tuple(E for T in TABLE[a:b])` / `[E for T in TABLE]` over a known table with an element expression made of the loop names only"""
        g = None
        if isinstance(v, ast.Call) and isinstance(v.func, ast.Name) and v.func.id in ("tuple", "list") and len(v.args) == 1 and not v.keywords and isinstance(v.args[0], (ast.GeneratorExp, ast.ListComp)):
            g = v.args[0]
        elif isinstance(v, ast.ListComp):
            g = v
        if g is None or len(g.generators) != 1 or g.generators[0].ifs or g.generators[0].is_async:
            return None
        gen = g.generators[0]
        it = gen.iter
        lo = hi = None
        if isinstance(it, ast.Subscript) and isinstance(it.slice, ast.Slice) and it.slice.step is None:
            lo = it.slice.lower.value if isinstance(it.slice.lower, ast.Constant) else (None if it.slice.lower is None else "x")
            hi = it.slice.upper.value if isinstance(it.slice.upper, ast.Constant) else (None if it.slice.upper is None else "x")
            it = it.value
        if not (isinstance(it, ast.Name) and it.id in tables) or "x" in (lo, hi):
            return None
        rows = tables[it.id].elts[lo:hi]
        tg = gen.target
        names = [tg.id] if isinstance(tg, ast.Name) else ([e.id for e in tg.elts] if isinstance(tg, ast.Tuple) and all(isinstance(e, ast.Name) for e in tg.elts) else None)
        if names is None:
            return None
        out_elts = []
        for r in rows:
            vals = [r] if len(names) == 1 else (list(r.elts) if isinstance(r, (ast.Tuple, ast.List)) and len(r.elts) == len(names) else None)
            if vals is None:
                return None
            m = dict(zip(names, vals))

            class S(ast.NodeTransformer):
                def visit_Name(self, n: ast.Name):
                    return ast.copy_location(copy.deepcopy(m[n.id]), n) if n.id in m and isinstance(n.ctx, ast.Load) else n
            el = S().visit(copy.deepcopy(g.elt))
            if not _static_elem(el):
                return None
            out_elts.append(el)
        return ast.copy_location(ast.Tuple(elts=out_elts, ctx=ast.Load()), v)
    for st in tree.body:
        if isinstance(st, ast.AnnAssign) and st.value is not None and isinstance(st.target, ast.Name):
            st = ast.copy_location(ast.Assign(targets=[st.target], value=st.value), st)
        if isinstance(st, ast.Assign) and len(st.targets) == 1 and isinstance(st.targets[0], ast.Name) and st.targets[0].id not in tables and st.targets[0].id not in known \
                and stores.get(st.targets[0].id) == 1:
            dt = derived_table(st.value)
            if dt is not None and 0 < len(dt.elts) <= 8:
                tables[st.targets[0].id] = dt

    def comp_unroll(fn):
        """comprehensions over a new table are displays: `{K: V for a, b in TABLE}` -> `{K1: V1, ...}`, `[E for x in TABLE]` -> `[E1, ...]`"""
        class CU(ast.NodeTransformer):
            def _rows(self, gens):
                if len(gens) != 1 or gens[0].ifs or gens[0].is_async:
                    return None
                it_ = gens[0].iter
                if isinstance(it_, ast.Name) and it_.id in tables:
                    src_rows = tables[it_.id].elts
                elif isinstance(it_, (ast.Tuple, ast.List)) and 0 < len(it_.elts) <= 8 and all(_static_elem(e) for e in it_.elts):
                    src_rows = it_.elts  # a table that was folded into its use
                else:
                    return None
                tg = gens[0].target
                names = [tg.id] if isinstance(tg, ast.Name) else ([e.id for e in tg.elts] if isinstance(tg, ast.Tuple) and all(isinstance(e, ast.Name) for e in tg.elts) else None)
                if names is None:
                    return None
                rows = []
                for r in src_rows:
                    vals = [r] if len(names) == 1 else (list(r.elts) if isinstance(r, (ast.Tuple, ast.List)) and len(r.elts) == len(names) else None)
                    if vals is None:
                        return None
                    rows.append(dict(zip(names, vals)))
                return rows

            @staticmethod
            def _sub(e, m):
                class S(ast.NodeTransformer):
                    def visit_Name(self, n: ast.Name):
                        return ast.copy_location(copy.deepcopy(m[n.id]), n) if n.id in m and isinstance(n.ctx, ast.Load) else n
                return S().visit(copy.deepcopy(e))

            def visit_DictComp(self, n: ast.DictComp):
                self.generic_visit(n)
                rows = self._rows(n.generators)
                if rows is None:
                    return n
                return ast.copy_location(ast.Dict(keys=[self._sub(n.key, m) for m in rows], values=[self._sub(n.value, m) for m in rows]), n)

            def visit_ListComp(self, n: ast.ListComp):
                self.generic_visit(n)
                rows = self._rows(n.generators)
                if rows is None:
                    return n
                return ast.copy_location(ast.List(elts=[self._sub(n.elt, m) for m in rows], ctx=ast.Load()), n)
        CU().visit(fn)

    def next_to_loop(body):
        """`x = next(E for T in TABLE if C)` over a new table: `for T in TABLE: if C: x = E; break  else: raise StopIteration`"""
        for i, st in enumerate(list(body)):
            if isinstance(st, ast.Assign) and len(st.targets) == 1 and isinstance(st.targets[0], ast.Name) and isinstance(st.value, ast.Call) \
                    and isinstance(st.value.func, ast.Name) and st.value.func.id == "next" and len(st.value.args) == 1 and not st.value.keywords \
                    and isinstance(st.value.args[0], ast.GeneratorExp) and len(st.value.args[0].generators) == 1:
                g = st.value.args[0].generators[0]
                if isinstance(g.iter, ast.Name) and g.iter.id in tables and not g.is_async:
                    cond = g.ifs[0] if len(g.ifs) == 1 else (ast.BoolOp(op=ast.And(), values=list(g.ifs)) if g.ifs else ast.Constant(value=True))

                    class St(ast.NodeTransformer):
                        def visit_Name(self, n: ast.Name):
                            return ast.copy_location(ast.Name(id=n.id, ctx=ast.Store()), n)
                    asg = ast.copy_location(ast.Assign(targets=[st.targets[0]], value=st.value.args[0].elt, lineno=st.lineno), st)
                    inner = ast.copy_location(ast.If(test=cond, body=[asg, ast.copy_location(ast.Break(), st)], orelse=[]), st)
                    stop = ast.copy_location(ast.Raise(exc=ast.Call(func=ast.Name(id="StopIteration", ctx=ast.Load()), args=[], keywords=[]), cause=None), st)
                    body[i] = ast.copy_location(ast.For(target=St().visit(copy.deepcopy(g.target)), iter=g.iter, body=[inner], orelse=[stop], lineno=st.lineno), st)
                    ast.fix_missing_locations(body[i])

    def unroll(body):
        next_to_loop(body)
        out = []
        for i, st in enumerate(body):
            for fld in ("body", "orelse", "finalbody"):
                b = getattr(st, fld, None)
                if isinstance(b, list) and b and isinstance(b[0], ast.stmt):
                    setattr(st, fld, unroll(b))
            if isinstance(st, ast.Try):
                for h in st.handlers:
                    h.body = unroll(h.body)
            if isinstance(st, ast.For) and isinstance(st.iter, ast.Name) and st.iter.id in tables and len(st.body) == 1 and isinstance(st.body[0], ast.If) \
                    and not st.body[0].orelse and st.body[0].body and isinstance(st.body[0].body[-1], ast.Break) \
                    and not any(isinstance(x, (ast.Break, ast.Continue)) for b_ in st.body[0].body[:-1] for x in ast.walk(b_)) \
                    and not any(isinstance(x, (ast.Break, ast.Continue)) for o_ in st.orelse for x in ast.walk(o_)):
                # the search idiom `for row in TABLE: if C(row): break  [else: E]`: the first matching row stays bound to the loop variables, E runs when
                # none matches (without `else` the last row stays bound).  Unrolled into a chain of tests with the rows assigned in turn.
                tg = st.target
                ok_t = isinstance(tg, ast.Name) or (isinstance(tg, ast.Tuple) and all(isinstance(e, ast.Name) for e in tg.elts))
                elts = tables[st.iter.id].elts
                if ok_t and (isinstance(tg, ast.Name) or all(isinstance(e, (ast.Tuple, ast.List)) and len(e.elts) == len(tg.elts) for e in elts)):
                    def build(i, _st=st, _tg=tg, _elts=elts):
                        asg = ast.copy_location(ast.Assign(targets=[copy.deepcopy(_tg)], value=copy.deepcopy(_elts[i]), lineno=_st.lineno), _st)
                        rest = build(i + 1) if i + 1 < len(_elts) else [copy.deepcopy(x) for x in _st.orelse]
                        names_ = [_tg.id] if isinstance(_tg, ast.Name) else [e.id for e in _tg.elts]
                        vals_ = [_elts[i]] if isinstance(_tg, ast.Name) else list(_elts[i].elts)
                        m_ = dict(zip(names_, vals_))

                        class S_(ast.NodeTransformer):
                            def visit_Name(self, n: ast.Name):
                                if n.id in m_ and isinstance(n.ctx, ast.Load):
                                    return ast.copy_location(copy.deepcopy(m_[n.id]), n)
                                return n
                        test = S_().visit(copy.deepcopy(_st.body[0].test))  # evaluated right after the assignment: the row's values
                        hit = [S_().visit(copy.deepcopy(b_)) for b_ in _st.body[0].body[:-1]] or [ast.copy_location(ast.Pass(), _st)]
                        if len(_st.body[0].body) > 1:
                            return [asg, ast.copy_location(ast.If(test=test, body=hit, orelse=rest), _st)]
                        return [asg, ast.copy_location(ast.If(test=test, body=[ast.copy_location(ast.Pass(), _st)], orelse=rest), _st)]
                    out.extend(build(0))
                    continue
            if isinstance(st, ast.For) and not st.orelse:
                it = st.iter
                elts = None
                if isinstance(it, ast.Name) and it.id in tables:
                    elts = tables[it.id].elts
                elif isinstance(it, (ast.Tuple, ast.List, ast.Set)) and 0 < len(it.elts) <= 8 and (not isinstance(it, ast.Set) or len(it.elts) == 1) and (
                        all(isinstance(e, ast.Constant) for e in it.elts) or
                        all(isinstance(e, (ast.Tuple, ast.List)) and e.elts and all(isinstance(c_, ast.Constant) for c_ in e.elts) for e in it.elts)):
                    elts = it.elts  # a loop over a short display of constants is the sequence of its iterations
                tg = st.target
                tnames = [tg.id] if isinstance(tg, ast.Name) else ([e.id for e in tg.elts] if isinstance(tg, ast.Tuple) and all(isinstance(e, ast.Name) for e in tg.elts) else None)
                inner = [x for b_ in st.body for x in ast.walk(b_)]
                if elts is not None and tnames is not None and not any(isinstance(x, (ast.Break, ast.Continue, ast.FunctionDef, ast.Lambda, ast.ClassDef)) for x in inner) \
                        and not any(isinstance(x, ast.Name) and isinstance(x.ctx, (ast.Store, ast.Del)) and x.id in tnames for x in inner) \
                        and not any(isinstance(x, ast.Name) and x.id in tnames for r_ in body[i + 1:] for x in ast.walk(r_)) \
                        and (len(tnames) == 1 or all(isinstance(e, (ast.Tuple, ast.List)) and len(e.elts) == len(tnames) for e in elts)):
                    # locals that live inside one iteration only (bound in the body, read nowhere outside the loop) get a name of their own in each copy,
                    # so that each stays a single-assignment temporary
                    bound_in = {x.id for x in inner if isinstance(x, ast.Name) and isinstance(x.ctx, ast.Store)} - set(tnames)
                    inside_ids = {id(x) for x in inner}
                    private = {nm for nm in bound_in if not any(isinstance(x, ast.Name) and x.id == nm and id(x) not in inside_ids for x in ast.walk(fn))}
                    # ... and only those whose first occurrence in the body is a store (not carried over from the previous iteration)
                    first_ctx: Dict[str, Any] = {}

                    def _order(node):
                        # evaluation order within a statement: value before targets
                        if isinstance(node, ast.Assign):
                            yield from _order(node.value)
                            for t_ in node.targets:
                                yield from _order(t_)
                            return
                        if isinstance(node, ast.Name):
                            yield node
                            return
                        for c_ in ast.iter_child_nodes(node):
                            yield from _order(c_)
                    for b_ in st.body:
                        for x in _order(b_):
                            if x.id in private and x.id not in first_ctx:
                                first_ctx[x.id] = x.ctx
                    private = {nm for nm in private if isinstance(first_ctx.get(nm), ast.Store)}
                    for k_, e in enumerate(elts):
                        vals = [e] if len(tnames) == 1 else list(e.elts)
                        m = dict(zip(tnames, vals))

                        class S(ast.NodeTransformer):
                            def visit_Name(self, n: ast.Name):
                                if n.id in m and isinstance(n.ctx, ast.Load):
                                    return ast.copy_location(copy.deepcopy(m[n.id]), n)
                                if n.id in private:
                                    return ast.copy_location(ast.Name(id=f"{n.id}__u{k_}", ctx=n.ctx), n)
                                return n
                        out.extend(S().visit(copy.deepcopy(b_)) for b_ in st.body)
                    continue
            out.append(st)
        return out

    class Beta(ast.NodeTransformer):
        """`(lambda a, b: E)(x, y)` with plain names / constants as arguments is E with them in place"""
        def visit_Call(self, n: ast.Call):
            self.generic_visit(n)
            f = n.func
            if isinstance(f, ast.Lambda) and not n.keywords and len(n.args) == len(f.args.args) and all(isinstance(a, (ast.Name, ast.Constant)) for a in n.args) \
                    and not (f.args.defaults or f.args.vararg or f.args.kwarg or f.args.kwonlyargs):
                m = {p.arg: a for p, a in zip(f.args.args, n.args)}

                class S(ast.NodeTransformer):
                    def visit_Name(self, x: ast.Name):
                        return ast.copy_location(copy.deepcopy(m[x.id]), x) if x.id in m and isinstance(x.ctx, ast.Load) else x
                return ast.copy_location(S().visit(copy.deepcopy(f.body)), n)
            return n
    for fn in ast.walk(tree):
        if isinstance(fn, (ast.FunctionDef, ast.AsyncFunctionDef)):
            comp_unroll(fn)  # first: a comprehension's own variable is not a use of the enclosing loop's variable of the same name
            fn.body = unroll(fn.body)
            comp_unroll(fn)
            if tables:
                Beta().visit(fn)


_ANY_COUNTER = [0]


def _any_all_to_loops(tree: ast.Module) -> None:
    """C16: `if any(c(x) for x in IT): <leaves>`  ->  `for x in IT: if c(x): <leaves>` and `if not all(c(x) for x in IT): <leaves>` -> `for x in IT:
    if not c(x): <leaves>` (one generator, no `if` clause needed but allowed; the statement has no else; <leaves> ends in raise / return).  Same
    elements tested in the same order, stopping at the first hit; the loop variable gets a fresh name so that nothing outside is shadowed."""
    import copy

    def conv(body, in_loop):
        out = []
        for st in body:
            for fld in ("body", "orelse", "finalbody"):
                b = getattr(st, fld, None)
                if isinstance(b, list) and b and isinstance(b[0], ast.stmt):
                    setattr(st, fld, conv(b, in_loop))
            if isinstance(st, ast.Try):
                for h in st.handlers:
                    h.body = conv(h.body, in_loop)
            if isinstance(st, ast.If) and not st.orelse and _leaves(st.body, False):
                t = st.test
                neg = False
                if isinstance(t, ast.UnaryOp) and isinstance(t.op, ast.Not):
                    t, neg = t.operand, True
                if isinstance(t, ast.Call) and isinstance(t.func, ast.Name) and t.func.id in ("any", "all") and len(t.args) == 1 and not t.keywords \
                        and isinstance(t.args[0], (ast.GeneratorExp, ast.ListComp)) and len(t.args[0].generators) == 1 and not t.args[0].generators[0].is_async \
                        and ((t.func.id == "any") != neg):
                    g = t.args[0].generators[0]
                    if isinstance(g.target, ast.Name):
                        _ANY_COUNTER[0] += 1
                        fresh = f"{g.target.id}__g{_ANY_COUNTER[0]}"
                        old = g.target.id

                        class Rn(ast.NodeTransformer):
                            def visit_Name(self, n: ast.Name):
                                if n.id == old:
                                    return ast.copy_location(ast.Name(id=fresh, ctx=n.ctx), n)
                                return n
                        cond = Rn().visit(copy.deepcopy(t.args[0].elt))
                        if t.func.id == "all":
                            cond = ast.copy_location(ast.UnaryOp(op=ast.Not(), operand=cond), cond)
                        for c_ in g.ifs:
                            cond = ast.copy_location(ast.BoolOp(op=ast.And(), values=[Rn().visit(copy.deepcopy(c_)), cond]), cond)
                        inner = ast.copy_location(ast.If(test=cond, body=st.body, orelse=[]), st)
                        loop = ast.copy_location(ast.For(target=ast.copy_location(ast.Name(id=fresh, ctx=ast.Store()), g.target), iter=g.iter, body=[inner], orelse=[], lineno=st.lineno), st)
                        out.append(loop)
                        continue
            out.append(st)
        return out

    for fn in ast.walk(tree):
        if isinstance(fn, (ast.FunctionDef, ast.AsyncFunctionDef)):
            fn.body = conv(fn.body, False)


def _return_any_all(tree: ast.Module) -> None:
    """C16r  `return all(E for T in IT)` is `for T in IT: if not E: return False` / `return True` (and `return any(...)` the mirror image): the same
    elements tested in the same order, stopping at the first decisive one.  Only as a whole return value (the reference tree has none); the loop
    variables become function locals, which nothing can observe after a return."""
    def conv(body):
        out = []
        for st in body:
            for fld in ("body", "orelse", "finalbody"):
                b = getattr(st, fld, None)
                if isinstance(b, list) and b and isinstance(b[0], ast.stmt):
                    setattr(st, fld, conv(b))
            if isinstance(st, ast.Try):
                for h in st.handlers:
                    h.body = conv(h.body)
            v = st.value if isinstance(st, ast.Return) else None
            if isinstance(v, ast.Call) and isinstance(v.func, ast.Name) and v.func.id in ("any", "all") and len(v.args) == 1 and not v.keywords \
                    and isinstance(v.args[0], (ast.GeneratorExp, ast.ListComp)) and len(v.args[0].generators) == 1 and not v.args[0].generators[0].is_async \
                    and isinstance(v.args[0], ast.GeneratorExp):
                g = v.args[0].generators[0]
                is_all = v.func.id == "all"
                cond = v.args[0].elt
                if is_all:
                    cond = ast.copy_location(ast.UnaryOp(op=ast.Not(), operand=cond), cond)
                inner: ast.stmt = ast.copy_location(ast.If(test=cond, body=[ast.copy_location(ast.Return(value=ast.Constant(value=not is_all)), st)], orelse=[]), st)
                for c_ in reversed(g.ifs):
                    inner = ast.copy_location(ast.If(test=c_, body=[inner], orelse=[]), st)

                class St(ast.NodeTransformer):
                    def visit_Name(self, n: ast.Name):
                        return ast.copy_location(ast.Name(id=n.id, ctx=ast.Store()), n)
                tgt = St().visit(copy.deepcopy(g.target))
                out.append(ast.copy_location(ast.For(target=tgt, iter=g.iter, body=[inner], orelse=[], lineno=st.lineno), st))
                out.append(ast.copy_location(ast.Return(value=ast.Constant(value=is_all)), st))
                continue
            out.append(st)
        return out
    for fn in ast.walk(tree):
        if isinstance(fn, (ast.FunctionDef, ast.AsyncFunctionDef)):
            fn.body = conv(fn.body)


def _merge_same_test_ifs(tree: ast.Module) -> None:
    """C22: two adjacent if statements with the same pure test (names, attribute chains, constants, comparisons of those), whose branches do not assign what
    the test reads, are one if statement with the branches concatenated"""
    def pure(e) -> bool:
        if isinstance(e, (ast.Name, ast.Constant)):
            return True
        if isinstance(e, ast.Attribute):
            return pure(e.value)
        if isinstance(e, ast.Compare):
            return pure(e.left) and all(pure(c) for c in e.comparators)
        if isinstance(e, ast.UnaryOp):
            return pure(e.operand)
        if isinstance(e, ast.BoolOp):
            return all(pure(v) for v in e.values)
        return False

    def writes(body, names) -> bool:
        for st in body:
            for x in ast.walk(st):
                if isinstance(x, ast.Name) and isinstance(x.ctx, (ast.Store, ast.Del)) and x.id in names:
                    return True
                if isinstance(x, (ast.Attribute, ast.Subscript)) and isinstance(x.ctx, (ast.Store, ast.Del)):
                    return True
                if isinstance(x, ast.Call):
                    return True  # a call could change an attribute the test reads: only call-free... unless the test reads plain locals only
        return False

    def only_locals(e) -> bool:
        return all(isinstance(x, (ast.Name, ast.Constant, ast.Compare, ast.UnaryOp, ast.BoolOp, ast.Load, ast.cmpop, ast.unaryop, ast.boolop, ast.expr_context)) for x in ast.walk(e))

    def stores(body, names) -> bool:
        return any(isinstance(x, ast.Name) and isinstance(x.ctx, (ast.Store, ast.Del)) and x.id in names for st in body for x in ast.walk(st))

    def merge(body):
        out = []
        for st in body:
            for fld in ("body", "orelse", "finalbody"):
                b = getattr(st, fld, None)
                if isinstance(b, list) and b and isinstance(b[0], ast.stmt) and not isinstance(st, ast.ClassDef):
                    setattr(st, fld, merge(b))
            if isinstance(st, ast.Try):
                for h in st.handlers:
                    h.body = merge(h.body)
            prev = out[-1] if out else None
            if isinstance(st, ast.If) and isinstance(prev, ast.If) and pure(st.test) and ast.dump(st.test) == ast.dump(prev.test):
                names = {x.id for x in ast.walk(st.test) if isinstance(x, ast.Name)}
                safe = (only_locals(st.test) and not stores(prev.body, names) and not stores(prev.orelse, names)) or \
                       (not writes(prev.body, names) and not writes(prev.orelse, names))
                if safe and not _leaves(prev.body, False) and not _leaves(prev.orelse, False):
                    prev.body = prev.body + st.body
                    prev.orelse = (prev.orelse or []) + (st.orelse or [])
                    continue
            out.append(st)
        return out

    for fn in ast.walk(tree):
        if isinstance(fn, (ast.FunctionDef, ast.AsyncFunctionDef)):
            fn.body = merge(fn.body)


def _bool_tables(tree: ast.Module, known: set) -> None:
    """C28  `TABLE[<boolean test>]` where TABLE is a module-level pair that is new to the rule catalogue - a 2-tuple / 2-list indexed by the test
    (False -> [0], True -> [1]) or a dict display with exactly the keys True and False - is the conditional expression `<T> if <test> else <F>`
    (a dispatch table for a two-way choice is the choice).  The test must be a comparison, `isinstance(...)`, `not ...` - an expression whose
    value is a bool, so that the table look-up cannot fail or pick a third entry."""
    tables = {}
    stores = {}
    for x in ast.walk(tree):
        if isinstance(x, ast.Name) and isinstance(x.ctx, (ast.Store, ast.Del)):
            stores[x.id] = stores.get(x.id, 0) + 1
    for st in tree.body:
        tgt = val = None
        if isinstance(st, ast.Assign) and len(st.targets) == 1 and isinstance(st.targets[0], ast.Name):
            tgt, val = st.targets[0].id, st.value
        elif isinstance(st, ast.AnnAssign) and isinstance(st.target, ast.Name) and st.value is not None:
            tgt, val = st.target.id, st.value
        if tgt is None or tgt in known or stores.get(tgt) != 1:
            continue
        if isinstance(val, (ast.Tuple, ast.List)) and len(val.elts) == 2 and all(_static_elem(e) for e in val.elts):
            tables[tgt] = {False: val.elts[0], True: val.elts[1]}
        elif isinstance(val, ast.Dict) and len(val.keys) == 2 and all(isinstance(k, ast.Constant) and isinstance(k.value, bool) for k in val.keys) \
                and {k.value for k in val.keys} == {True, False} and all(_static_elem(e) for e in val.values):
            tables[tgt] = {k.value: v for k, v in zip(val.keys, val.values)}
    if not tables:
        return

    def boolean(e) -> bool:
        if isinstance(e, ast.Compare):
            return True
        if isinstance(e, ast.UnaryOp) and isinstance(e.op, ast.Not):
            return True
        if isinstance(e, ast.Call) and isinstance(e.func, ast.Name) and e.func.id in ("isinstance", "issubclass", "callable", "hasattr", "bool"):
            return True
        if isinstance(e, ast.BoolOp):
            return all(boolean(v) for v in e.values)
        return False

    class R(ast.NodeTransformer):
        def visit_Subscript(self, n: ast.Subscript):
            self.generic_visit(n)
            if isinstance(n.value, ast.Name) and n.value.id in tables and isinstance(n.ctx, ast.Load) and boolean(n.slice):
                t = tables[n.value.id]
                return ast.copy_location(ast.IfExp(test=n.slice, body=copy.deepcopy(t[True]), orelse=copy.deepcopy(t[False])), n)
            return n
    for fn in ast.walk(tree):
        if isinstance(fn, (ast.FunctionDef, ast.AsyncFunctionDef)):
            fn.body = [R().visit(st) for st in fn.body]


def _hoist_walrus(tree: ast.Module) -> None:
    """C27  an assignment expression that is the first thing a statement evaluates (`if (x := f()) is None:`, `if not (opt := d.get(k)):`,
    `y = g((x := f()))`) is the assignment statement `x = f()` followed by the statement with `x` in its place.  Only the leading one is
    hoisted: a walrus behind `and` / `or`, inside a comprehension, a lambda or a `while` test is evaluated conditionally or repeatedly."""
    def leading(e):
        if isinstance(e, ast.NamedExpr):
            return e
        if isinstance(e, ast.UnaryOp):
            return leading(e.operand)
        if isinstance(e, ast.Compare):
            return leading(e.left)
        if isinstance(e, ast.BoolOp):
            return leading(e.values[0])
        if isinstance(e, ast.BinOp):
            return leading(e.left)
        if isinstance(e, (ast.Attribute, ast.Subscript)):
            return leading(e.value)
        if isinstance(e, ast.IfExp):
            return leading(e.test)
        if isinstance(e, ast.Call) and isinstance(e.func, ast.Name) and e.args and not isinstance(e.args[0], ast.Starred):
            return leading(e.args[0])
        if isinstance(e, ast.Call) and isinstance(e.func, ast.Attribute):
            return leading(e.func.value)
        return None

    def walk(body):
        i = 0
        while i < len(body):
            st = body[i]
            fld = "test" if isinstance(st, ast.If) else ("value" if isinstance(st, (ast.Assign, ast.AnnAssign, ast.Expr, ast.Return, ast.AugAssign)) else None)
            ex = getattr(st, fld, None) if fld else None
            w = leading(ex) if ex is not None else None
            if w is not None and isinstance(w.target, ast.Name):
                pre = ast.copy_location(ast.Assign(targets=[ast.Name(id=w.target.id, ctx=ast.Store())], value=w.value, lineno=st.lineno), st)
                nm = ast.copy_location(ast.Name(id=w.target.id, ctx=ast.Load()), w)

                class R(ast.NodeTransformer):
                    def visit_NamedExpr(self, n):
                        return nm if n is w else self.generic_visit(n)
                setattr(st, fld, R().visit(ex))
                body.insert(i, pre)
                i += 1
                continue  # the same statement may start with another one now
            for f2 in ("body", "orelse", "finalbody"):
                b = getattr(st, f2, None)
                if isinstance(b, list) and b and isinstance(b[0], ast.stmt):
                    walk(b)
            if isinstance(st, ast.Try):
                for h in st.handlers:
                    walk(h.body)
            i += 1
    for n in ast.walk(tree):
        if isinstance(n, (ast.FunctionDef, ast.AsyncFunctionDef)):
            walk(n.body)


def _split_tuple_assigns(tree: ast.Module) -> None:
    """C25  `a, b = e1, e2` with plain local names on the left, none of which is read on the right: `a = e1; b = e2` (same evaluation
    order; a binding of a local has no effect the later expressions could see)."""
    def walk(body):
        i = 0
        while i < len(body):
            st = body[i]
            for fld in ("body", "orelse", "finalbody"):
                b = getattr(st, fld, None)
                if isinstance(b, list) and b and isinstance(b[0], ast.stmt):
                    walk(b)
            if isinstance(st, ast.Try):
                for h in st.handlers:
                    walk(h.body)
            if isinstance(st, ast.Assign) and len(st.targets) == 1 and isinstance(st.targets[0], ast.Tuple) and isinstance(st.value, ast.Tuple) \
                    and len(st.targets[0].elts) == len(st.value.elts) and all(isinstance(t_, ast.Name) for t_ in st.targets[0].elts) \
                    and not any(isinstance(v, ast.Starred) for v in st.value.elts):
                names = {t_.id for t_ in st.targets[0].elts}
                if len(names) == len(st.targets[0].elts) and not any(isinstance(x, ast.Name) and x.id in names for v in st.value.elts for x in ast.walk(v)):
                    new = [ast.copy_location(ast.Assign(targets=[t_], value=v, lineno=st.lineno), st) for t_, v in zip(st.targets[0].elts, st.value.elts)]
                    body[i:i + 1] = new
                    i += len(new)
                    continue
            i += 1
    for n in ast.walk(tree):
        if isinstance(n, (ast.FunctionDef, ast.AsyncFunctionDef)):
            walk(n.body)


def _thread_sentinels(tree: ast.Module) -> None:
    """C24  jump threading for sentinel results.  `if c: ...; x = E  else: ...; x = None` followed by `if x is None: A else: B` (the shape an
    inlined helper that returns None-or-a-value leaves behind) becomes `if c: ...; x = E; if x is None: A else: B   else: ...; x = None; A`:
    the test that follows is copied into every arm and decided where the arm has just bound x to a constant.  Pure duplication, no
    assumption about E; at most one arm keeps the undecided copy."""
    NOVAL = object()
    static_names = set()
    for st_ in tree.body:
        if isinstance(st_, (ast.FunctionDef, ast.AsyncFunctionDef, ast.ClassDef)):
            static_names.add(st_.name)
        elif isinstance(st_, ast.ImportFrom):
            static_names.update(a_.asname or a_.name for a_ in st_.names)
    rebound = {n_.id for n_ in ast.walk(tree) if isinstance(n_, ast.Name) and isinstance(n_.ctx, (ast.Store, ast.Del))}
    static_names -= rebound  # a name that is assigned anywhere in the module is not a fixed function / class name
    # ... a module-level record of such names, bound once (`_GENERAL = _Syntax(sign_general, extract_general, verify_general)`), is as fixed as they are
    nstores: Dict[str, int] = {}
    for n_ in ast.walk(tree):
        if isinstance(n_, ast.Name) and isinstance(n_.ctx, (ast.Store, ast.Del)):
            nstores[n_.id] = nstores.get(n_.id, 0) + 1
    classes_here = {st_.name for st_ in tree.body if isinstance(st_, ast.ClassDef)}
    for st_ in tree.body:
        if isinstance(st_, ast.Assign) and len(st_.targets) == 1 and isinstance(st_.targets[0], ast.Name) and nstores.get(st_.targets[0].id) == 1 \
                and isinstance(st_.value, ast.Call) and isinstance(st_.value.func, ast.Name) and st_.value.func.id in classes_here and not st_.value.keywords \
                and st_.value.args and all(isinstance(a_, ast.Constant) or (isinstance(a_, ast.Name) and a_.id in static_names) for a_ in st_.value.args):
            static_names.add(st_.targets[0].id)

    def simple_test(t: ast.expr):
        """(name, fn: constant -> bool) for tests that read one local only"""
        if isinstance(t, ast.Name):
            return t.id, (lambda v: bool(v))
        if isinstance(t, ast.UnaryOp) and isinstance(t.op, ast.Not) and isinstance(t.operand, ast.Name):
            return t.operand.id, (lambda v: not v)
        if isinstance(t, ast.Compare) and len(t.ops) == 1 and isinstance(t.left, ast.Name) and isinstance(t.comparators[0], ast.Constant) and t.comparators[0].value is None:
            if isinstance(t.ops[0], ast.Is):
                return t.left.id, (lambda v: v is None)
            if isinstance(t.ops[0], ast.IsNot):
                return t.left.id, (lambda v: v is not None)
        return None

    def last_value(arm, x):
        if not arm:
            return None
        st = arm[-1]
        if isinstance(st, ast.Assign) and len(st.targets) == 1 and isinstance(st.targets[0], ast.Name) and st.targets[0].id == x:
            return ("const", st.value.value) if isinstance(st.value, ast.Constant) else ("expr", NOVAL)
        if isinstance(st, ast.If) and st.body and st.orelse:
            a, b = last_value(st.body, x), last_value(st.orelse, x)
            if a is None or b is None:
                return None
            return ("tree", [a, b])
        return None

    def leaves(v):
        if v[0] == "tree":
            return [l for sub in v[1] for l in leaves(sub)]
        return [v]

    def push(arm, x, nxt: ast.If, decide):
        st = arm[-1]
        if isinstance(st, ast.If):
            push(st.body, x, nxt, decide)
            push(st.orelse, x, nxt, decide)
            return
        if isinstance(st.value, ast.Constant):
            arm.extend(copy.deepcopy(nxt.body if decide(st.value.value) else nxt.orelse))
        else:
            arm.append(copy.deepcopy(nxt))

    def arm_constant(arm, x):
        """the constant the arm binds x to (one top-level `x = <constant>`, no other store of x anywhere in the arm), else NOVAL"""
        found = NOVAL
        for a_ in arm:
            stores = [n_ for n_ in ast.walk(a_) if isinstance(n_, ast.Name) and n_.id == x and isinstance(n_.ctx, (ast.Store, ast.Del))]
            if not stores:
                continue
            if isinstance(a_, ast.Assign) and len(a_.targets) == 1 and isinstance(a_.targets[0], ast.Name) and a_.targets[0].id == x and len(stores) == 1 and found is NOVAL \
                    and (isinstance(a_.value, ast.Constant) or (isinstance(a_.value, ast.Name) and a_.value.id in static_names)):
                found = a_.value
            else:
                return NOVAL
        return found

    def sink_constants(st: ast.If, nxt: ast.stmt) -> bool:
        reads = {n_.id for n_ in ast.walk(nxt) if isinstance(n_, ast.Name) and isinstance(n_.ctx, ast.Load)}
        writes = {n_.id for n_ in ast.walk(nxt) if isinstance(n_, ast.Name) and isinstance(n_.ctx, (ast.Store, ast.Del))}
        cands = []
        for x in sorted(reads - writes):
            ka, kb = arm_constant(st.body, x), arm_constant(st.orelse, x)
            if ka is not NOVAL and kb is not NOVAL and ast.dump(ka) != ast.dump(kb) and all(
                    isinstance(k_, ast.Name) or isinstance(k_.value, (str, bytes, int, bool, type(None))) for k_ in (ka, kb)):
                cands.append((x, ka, kb))
        if not cands or any(isinstance(n_, (ast.Lambda, ast.GeneratorExp, ast.ListComp, ast.SetComp, ast.DictComp)) for n_ in ast.walk(nxt)):
            return False
        # both arms must end by falling through (nothing after a return / raise would run)
        if any(isinstance(arm[-1], (ast.Return, ast.Raise, ast.Break, ast.Continue)) for arm in (st.body, st.orelse)):
            return False
        for arm, idx in ((st.body, 1), (st.orelse, 2)):
            m_ = {c[0]: c[idx] for c in cands}

            class S(ast.NodeTransformer):
                def visit_Name(self, n_: ast.Name):
                    if n_.id in m_ and isinstance(n_.ctx, ast.Load):
                        return ast.copy_location(copy.deepcopy(m_[n_.id]), n_)
                    return n_
            arm.append(S().visit(copy.deepcopy(nxt)))
        return True

    def walk(body):
        i = 0
        while i < len(body):
            st = body[i]
            for fld in ("body", "orelse", "finalbody"):
                b = getattr(st, fld, None)
                if isinstance(b, list) and b and isinstance(b[0], ast.stmt):
                    walk(b)
            if isinstance(st, ast.Try):
                for h in st.handlers:
                    walk(h.body)
            if isinstance(st, ast.If) and st.body and st.orelse and i + 1 < len(body) and isinstance(body[i + 1], (ast.Assign, ast.AugAssign, ast.Expr, ast.Return, ast.If)) \
                    and not (isinstance(body[i + 1], ast.If) and sum(1 for _ in ast.walk(body[i + 1])) > 120) and sink_constants(st, body[i + 1]):
                # C26: a selector constant bound on both arms (`m = "alg"` / `m = "enc"`) and read by the next statement: the statement moves into
                # both arms with the constant in place (`header[m]` is `header["alg"]` / `header["enc"]`)
                del body[i + 1]
                continue
            if isinstance(st, ast.If) and st.body and st.orelse and i + 1 < len(body) and isinstance(body[i + 1], ast.If):
                nxt = body[i + 1]
                sim = simple_test(nxt.test)
                if sim is not None:
                    x, decide = sim
                    v = last_value([st], x)
                    if v is not None:
                        ls = leaves(v)
                        if sum(1 for l in ls if l[0] == "expr") <= 1 and any(l[0] == "const" for l in ls) and sum(1 for _ in ast.walk(nxt)) <= 400:
                            push(st.body, x, nxt, decide)
                            push(st.orelse, x, nxt, decide)
                            del body[i + 1]
                            continue
            i += 1
    for n in ast.walk(tree):
        if isinstance(n, (ast.FunctionDef, ast.AsyncFunctionDef)):
            walk(n.body)


def _segment_lists(tree: ast.Module) -> None:
    """C34: a local list that only collects segments - `L = [a, b]`, `L.append(c)` / `L.extend([..])` / `L += [..]` at the same block level - and is only
    ever read as the operand of `sep.join(L)`: each join is given the display of the elements collected so far (`sep.join([a, b])`), the elements
    held in temporaries bound where they were computed.  The list itself disappears; evaluation order is untouched."""
    counter = [0]

    def uses(node: ast.AST, nm: str) -> List[ast.Name]:
        return [x for x in ast.walk(node) if isinstance(x, ast.Name) and x.id == nm]

    def do_block(fn: ast.AST, body: List[ast.stmt]) -> None:
        i = 0
        while i < len(body):
            st = body[i]
            if isinstance(st, ast.Assign) and len(st.targets) == 1 and isinstance(st.targets[0], ast.Name) and isinstance(st.value, ast.List) \
                    and not any(isinstance(e, ast.Starred) for e in st.value.elts):
                nm = st.targets[0].id
                total = len(uses(fn, nm))
                seen = 1
                plan: List[Tuple[int, str, Any]] = [(i, "init", list(st.value.elts))]
                ok = True
                njoin = 0
                for j in range(i + 1, len(body)):
                    s2 = body[j]
                    us = uses(s2, nm)
                    if not us:
                        continue
                    seen += len(us)
                    if isinstance(s2, ast.Expr) and isinstance(s2.value, ast.Call) and isinstance(s2.value.func, ast.Attribute) and isinstance(s2.value.func.value, ast.Name) \
                            and s2.value.func.value.id == nm and not s2.value.keywords and len(s2.value.args) == 1 and len(us) == 1:
                        a = s2.value.args[0]
                        if s2.value.func.attr == "append" and not isinstance(a, ast.Starred):
                            plan.append((j, "add", [a]))
                            continue
                        if s2.value.func.attr == "extend" and isinstance(a, (ast.List, ast.Tuple)) and not any(isinstance(e, ast.Starred) for e in a.elts):
                            plan.append((j, "add", list(a.elts)))
                            continue
                        ok = False
                        break
                    if isinstance(s2, ast.If) and not s2.orelse and not any(isinstance(x, (ast.Call, ast.NamedExpr, ast.Await, ast.Lambda)) for x in ast.walk(s2.test)) \
                            and not uses(s2.test, nm) and all(
                                isinstance(b_, ast.Expr) and isinstance(b_.value, ast.Call) and isinstance(b_.value.func, ast.Attribute) and isinstance(b_.value.func.value, ast.Name)
                                and b_.value.func.value.id == nm and b_.value.func.attr == "append" and len(b_.value.args) == 1 and not b_.value.keywords
                                and not isinstance(b_.value.args[0], ast.Starred) and len(uses(b_, nm)) == 1 for b_ in s2.body):
                        plan.append((j, "opt", (s2.test, [b_.value.args[0] for b_ in s2.body])))
                        continue
                    if isinstance(s2, ast.AugAssign) and isinstance(s2.target, ast.Name) and s2.target.id == nm and isinstance(s2.op, ast.Add) and len(us) == 1 \
                            and isinstance(s2.value, (ast.List, ast.Tuple)) and not any(isinstance(e, ast.Starred) for e in s2.value.elts):
                        plan.append((j, "add", list(s2.value.elts)))
                        continue
                    if isinstance(s2, (ast.Assign, ast.AnnAssign, ast.Return, ast.Expr)) and getattr(s2, "value", None) is not None:
                        joins = [c for c in ast.walk(s2.value) if isinstance(c, ast.Call) and isinstance(c.func, ast.Attribute) and c.func.attr == "join"
                                 and isinstance(c.func.value, ast.Constant) and len(c.args) == 1 and not c.keywords and isinstance(c.args[0], ast.Name) and c.args[0].id == nm]
                        tg_names = [x for t_ in (s2.targets if isinstance(s2, ast.Assign) else ([s2.target] if isinstance(s2, ast.AnnAssign) else [])) for x in uses(t_, nm)]
                        if joins and len(joins) == len(us) and not tg_names:
                            plan.append((j, "join", joins))
                            njoin += len(joins)
                            continue
                    ok = False
                    break
                if ok and njoin and seen == total:
                    counter[0] += 1
                    elems: List[Any] = []  # expr, or (test, expr) for an element appended under a test
                    repl: Dict[int, List[ast.stmt]] = {}
                    feasible = True
                    for (j, kind, payload) in plan:
                        if kind in ("init", "add"):
                            outst: List[ast.stmt] = []
                            for e in payload:
                                if isinstance(e, (ast.Name, ast.Constant)):
                                    elems.append(e)
                                else:
                                    tn = f"__seg{counter[0]}_{len(elems)}"
                                    a_ = ast.copy_location(ast.Assign(targets=[ast.Name(id=tn, ctx=ast.Store())], value=e, type_comment=None), body[j])
                                    outst.append(a_)
                                    elems.append(ast.Name(id=tn, ctx=ast.Load()))
                            repl[j] = outst
                        elif kind == "opt":
                            test, es = payload
                            inner_: List[ast.stmt] = []
                            for e in es:
                                tn = f"__seg{counter[0]}_{len(elems)}"
                                inner_.append(ast.copy_location(ast.Assign(targets=[ast.Name(id=tn, ctx=ast.Store())], value=e, type_comment=None), body[j]))
                                elems.append((test, ast.Name(id=tn, ctx=ast.Load()), j))
                            repl[j] = [ast.copy_location(ast.If(test=test, body=inner_, orelse=[]), body[j])]
                        else:
                            if all(not isinstance(e, tuple) for e in elems):
                                for c in payload:
                                    c.args[0] = ast.copy_location(ast.List(elts=[copy.deepcopy(e) for e in elems], ctx=ast.Load()), c.args[0])
                                continue
                            # some element is there only under a test: the join spelled as a concatenation, `(sep + e if test else <empty>)` for those.
                            # The test is read again here: nothing between may re-bind its names.
                            for c in payload:
                                sep = c.func.value
                                empty = ast.Constant(value=b"" if isinstance(sep.value, bytes) else "")
                                if not isinstance(sep.value, (bytes, str)) or isinstance(elems[0], tuple) and sep.value:
                                    feasible = False
                                    break
                                for e in elems:
                                    if isinstance(e, tuple):
                                        tn_ = {x.id for x in ast.walk(e[0]) if isinstance(x, ast.Name)}
                                        if any(isinstance(x, ast.Name) and x.id in tn_ and isinstance(x.ctx, (ast.Store, ast.Del)) for s3 in body[e[2] + 1:j + 1] for x in ast.walk(s3)):
                                            feasible = False
                                if not feasible:
                                    break
                                acc: Optional[ast.expr] = None
                                for k_, e in enumerate(elems):
                                    raw = copy.deepcopy(e[1] if isinstance(e, tuple) else e)
                                    piece: ast.expr = raw if (k_ == 0 or not sep.value) else ast.BinOp(left=copy.deepcopy(sep), op=ast.Add(), right=raw)
                                    if isinstance(e, tuple):
                                        piece = ast.IfExp(test=copy.deepcopy(e[0]), body=piece, orelse=copy.deepcopy(empty))
                                    acc = piece if acc is None else ast.BinOp(left=acc, op=ast.Add(), right=piece)
                                c._jv_concat = acc if acc is not None else empty  # type: ignore[attr-defined]
                    if not feasible:
                        i += 1
                        continue
                    # replace the joins that became concatenations
                    for (j, kind, payload) in plan:
                        if kind == "join":
                            for c in payload:
                                if hasattr(c, "_jv_concat"):
                                    new_ = ast.copy_location(c._jv_concat, c)
                                    ast.fix_missing_locations(new_)

                                    class RJ(ast.NodeTransformer):
                                        def visit_Call(self, node: ast.Call):
                                            if node is c:
                                                return new_
                                            return self.generic_visit(node)
                                    body[j] = RJ().visit(body[j])
                    nb: List[ast.stmt] = []
                    for j, s2 in enumerate(body):
                        if j in repl:
                            nb.extend(repl[j])
                        else:
                            nb.append(s2)
                    body[:] = nb or [ast.Pass()]
                    continue  # re-examine position i
            i += 1

    for fn in ast.walk(tree):
        if isinstance(fn, (ast.FunctionDef, ast.AsyncFunctionDef)):
            for n in ast.walk(fn):
                for fld in ("body", "orelse", "finalbody"):
                    b = getattr(n, fld, None)
                    if isinstance(b, list) and b and isinstance(b[0], ast.stmt):
                        do_block(fn, b)


_ELEMENT_VALIDATORS = {"is_list_str": "str"}  # validators that raise unless every element of their argument is of the named type (decided by C15 / C16 on their own)


def _next_search(tree: ast.Module) -> None:
    """C35: `x = next((E for k in IT if C), D)` is the search loop `for k in IT: if C: x = E; break  else: x = D` (without D: raise StopIteration).
    An immediately following `if x is [not] None:` statement (D being None) is copied to both exits - decided where x was just bound to None, and
    decided the other way where x is the loop variable itself and a validator call `is_list_str(IT)` stands before the search in the same block
    (its elements are str)."""
    counter = [0]

    # private module-level sentinels: `_MISSING = object()`, bound once - an object nothing else can be
    sentinels = set()
    nst: Dict[str, int] = {}
    for n_ in ast.walk(tree):
        if isinstance(n_, ast.Name) and isinstance(n_.ctx, (ast.Store, ast.Del)):
            nst[n_.id] = nst.get(n_.id, 0) + 1
    for st_ in tree.body:
        tg_ = st_.targets[0] if isinstance(st_, ast.Assign) and len(st_.targets) == 1 else (st_.target if isinstance(st_, ast.AnnAssign) else None)
        v_ = getattr(st_, "value", None)
        if isinstance(tg_, ast.Name) and tg_.id.startswith("_") and nst.get(tg_.id) == 1 and isinstance(v_, ast.Call) and isinstance(v_.func, ast.Name) and v_.func.id == "object" \
                and not v_.args and not v_.keywords:
            sentinels.add(tg_.id)

    def is_none_test(t: ast.expr, nm: str, dflt: Optional[ast.expr] = None) -> Optional[bool]:
        """True for `nm is None`, False for `nm is not None` (or, with a sentinel default D, `nm is D` / `nm is not D`)"""
        if isinstance(t, ast.Compare) and len(t.ops) == 1 and isinstance(t.left, ast.Name) and t.left.id == nm and isinstance(t.ops[0], (ast.Is, ast.IsNot)):
            c0 = t.comparators[0]
            if isinstance(c0, ast.Constant) and c0.value is None and (dflt is None or (isinstance(dflt, ast.Constant) and dflt.value is None)):
                return isinstance(t.ops[0], ast.Is)
            if isinstance(c0, ast.Name) and isinstance(dflt, ast.Name) and c0.id == dflt.id and c0.id in sentinels:
                return isinstance(t.ops[0], ast.Is)
        return None

    def do_block(fn: ast.AST, body: List[ast.stmt]) -> None:
        i = 0
        while i < len(body):
            st = body[i]
            i += 1
            if not (isinstance(st, ast.Assign) and len(st.targets) == 1 and isinstance(st.targets[0], ast.Name) and isinstance(st.value, ast.Call)
                    and isinstance(st.value.func, ast.Name) and st.value.func.id == "next" and len(st.value.args) in (1, 2) and not st.value.keywords
                    and isinstance(st.value.args[0], ast.GeneratorExp) and len(st.value.args[0].generators) == 1):
                continue
            gen = st.value.args[0]
            g = gen.generators[0]
            dflt = st.value.args[1] if len(st.value.args) == 2 else None
            if g.is_async or (dflt is not None and not isinstance(dflt, (ast.Constant, ast.Name))):
                continue
            if any(isinstance(x, (ast.NamedExpr, ast.Lambda, ast.Yield, ast.YieldFrom, ast.Await, ast.GeneratorExp, ast.ListComp, ast.SetComp, ast.DictComp)) for x in ast.walk(gen) if x is not gen):
                continue
            x = st.targets[0].id
            # the comprehension's own variable must not meet a name of the function
            inside = {id(n) for n in ast.walk(gen)}
            outer = {n.id for n in ast.walk(fn) if isinstance(n, ast.Name) and id(n) not in inside} | {a.arg for a in ast.walk(fn) if isinstance(a, ast.arg)}
            tnames = {n.id for n in ast.walk(g.target) if isinstance(n, ast.Name)}
            ren: Dict[str, str] = {}
            for nm in sorted(tnames & outer):
                counter[0] += 1
                ren[nm] = f"{nm}__n{counter[0]}"

            class Rn(ast.NodeTransformer):
                def visit_Name(self, n: ast.Name):
                    if n.id in ren:
                        return ast.copy_location(ast.Name(id=ren[n.id], ctx=n.ctx), n)
                    return n
            tgt = Rn().visit(copy.deepcopy(g.target))
            for n in ast.walk(tgt):
                if isinstance(n, (ast.Name, ast.Tuple, ast.List, ast.Starred)):
                    n.ctx = ast.Store()
            elt = Rn().visit(copy.deepcopy(gen.elt))
            ifs = [Rn().visit(copy.deepcopy(c)) for c in g.ifs]
            cond = ifs[0] if len(ifs) == 1 else (ast.BoolOp(op=ast.And(), values=ifs) if ifs else None)
            hit: List[ast.stmt] = [ast.copy_location(ast.Assign(targets=[ast.Name(id=x, ctx=ast.Store())], value=elt, type_comment=None), st)]
            miss: List[ast.stmt] = [ast.copy_location(ast.Assign(targets=[ast.Name(id=x, ctx=ast.Store())], value=dflt, type_comment=None), st)] if dflt is not None else \
                [ast.copy_location(ast.Raise(exc=ast.Call(func=ast.Name(id="StopIteration", ctx=ast.Load()), args=[], keywords=[]), cause=None), st)]
            # the test that follows
            nxt = body[i] if i < len(body) else None
            took = False
            if isinstance(nxt, ast.If) and dflt is not None and ((isinstance(dflt, ast.Constant) and dflt.value is None) or (isinstance(dflt, ast.Name) and dflt.id in sentinels)) \
                    and is_none_test(nxt.test, x, dflt) is not None \
                    and not any(isinstance(n, (ast.Break, ast.Continue)) for n in ast.walk(nxt)) and sum(1 for _ in ast.walk(nxt)) <= 300:
                isnone = is_none_test(nxt.test, x, dflt)
                miss.extend(copy.deepcopy(nxt.body if isnone else nxt.orelse))
                validated = any(isinstance(p, ast.Expr) and isinstance(p.value, ast.Call) and isinstance(p.value.func, ast.Name) and p.value.func.id in _ELEMENT_VALIDATORS
                                and len(p.value.args) == 1 and ast.dump(p.value.args[0]) == ast.dump(g.iter) for p in body[:i - 1])
                stores_between = False
                is_sentinel = isinstance(dflt, ast.Name) and dflt.id in sentinels and not any(isinstance(n_, ast.Name) and n_.id == dflt.id for n_ in ast.walk(elt))
                if is_sentinel or (validated and isinstance(elt, ast.Name) and isinstance(tgt, ast.Name) and elt.id == tgt.id and not stores_between):
                    hit.extend(copy.deepcopy(nxt.orelse if isnone else nxt.body))
                else:
                    hit.append(copy.deepcopy(nxt))
                took = True
            hit.append(ast.copy_location(ast.Break(), st))
            inner: List[ast.stmt] = [ast.copy_location(ast.If(test=cond, body=hit, orelse=[]), st)] if cond is not None else hit
            loop = ast.copy_location(ast.For(target=tgt, iter=g.iter, body=inner, orelse=miss, type_comment=None), st)
            ast.fix_missing_locations(loop)
            body[i - 1] = loop
            if took:
                del body[i]

    for fn in ast.walk(tree):
        if isinstance(fn, (ast.FunctionDef, ast.AsyncFunctionDef)):
            for n in ast.walk(fn):
                for fld in ("body", "orelse", "finalbody"):
                    b = getattr(n, fld, None)
                    if isinstance(b, list) and b and isinstance(b[0], ast.stmt):
                        do_block(fn, b)


_GENERATED = None


def _is_generated(name: str) -> bool:
    """names the inliner makes up: a spliced body's local `x` becomes `x__<helper><n>`, lifted calls `__inl<n>`"""
    import re
    global _GENERATED
    if _GENERATED is None:
        _GENERATED = re.compile(r"^(?:__inl\d+|__tup\d+_\d+|__seg\d+_\d+|.+__[A-Za-z]\w*?\d+)$")
    return bool(_GENERATED.match(name))


def _coalesce_temp_copies(fn: ast.AST) -> None:
    """C36: `T = e ... X = T` where T is a name the inliner made up, bound once, and `X = T` is its one copy: T is X from the start (the splice of
    `X = helper(e)` whose body tests its parameter before returning it).  Sound when nothing reads or binds X between the two statements and every
    way of not reaching the copy leaves the function without reading X: the copy stands in the block of T's binding, or under `if` statements of
    that block whose other arms only raise / return without naming X."""
    def names_in(node: ast.AST, nm: str) -> int:
        return sum(1 for x in ast.walk(node) if isinstance(x, ast.Name) and x.id == nm)

    def leaves_without(stmts: List[ast.stmt], nm: str) -> bool:
        if not stmts:
            return False
        last = stmts[-1]
        if any(names_in(s_, nm) for s_ in stmts):
            return False
        if isinstance(last, (ast.Raise, ast.Return)):
            return True
        if isinstance(last, ast.If):
            return leaves_without(last.body, nm) and leaves_without(last.orelse, nm)
        return False

    def find_copy(stmts: List[ast.stmt], T: str):
        """(owner list, index, X) of the one `X = T` reachable through if-arms whose sibling arm leaves; None if something else names X or T's copy is elsewhere"""
        for j, s_ in enumerate(stmts):
            if isinstance(s_, ast.Assign) and len(s_.targets) == 1 and isinstance(s_.targets[0], ast.Name) and isinstance(s_.value, ast.Name) and s_.value.id == T:
                return stmts, j, s_.targets[0].id, []
            if isinstance(s_, ast.If):
                for arm, other in ((s_.body, s_.orelse), (s_.orelse, s_.body)):
                    if any(names_in(a_, T) for a_ in arm) and any(isinstance(a_, ast.Assign) and isinstance(a_.value, ast.Name) and a_.value.id == T for a_ in ast.walk(ast.Module(body=arm, type_ignores=[]))):
                        r = find_copy(arm, T)
                        if r is None:
                            return None
                        return r[0], r[1], r[2], r[3] + [(s_, other)] + [("pre", stmts[:j])]
        return None

    def ordered_rename() -> bool:
        """second form: `X = T` (T made up, bound any number of times - typically once on each arm of an `if`) where every other mention of X in the
        function comes later in the same block and T is not mentioned there: the value only ever travels T -> X, so T is X"""
        scoped = {id(x) for g in ast.walk(fn) if isinstance(g, (ast.FunctionDef, ast.AsyncFunctionDef, ast.Lambda, ast.ClassDef, ast.ListComp, ast.SetComp, ast.DictComp, ast.GeneratorExp))
                  and g is not fn for x in ast.walk(g)}
        loops = [g for g in ast.walk(fn) if isinstance(g, (ast.For, ast.While, ast.AsyncFor))]
        for owner in ast.walk(fn):
            for fld in ("body", "orelse", "finalbody"):
                blk = getattr(owner, fld, None)
                if not (isinstance(blk, list) and blk and isinstance(blk[0], ast.stmt)):
                    continue
                for j, c in enumerate(blk):
                    if not (isinstance(c, ast.Assign) and len(c.targets) == 1 and isinstance(c.targets[0], ast.Name) and isinstance(c.value, ast.Name)):
                        continue
                    X, T = c.targets[0].id, c.value.id
                    if X == T or not _is_generated(T) or id(c) in scoped:
                        continue
                    tail_ids = {id(x) for s_ in blk[j + 1:] for x in ast.walk(s_)}
                    xs = [x for x in ast.walk(fn) if isinstance(x, ast.Name) and x.id == X and x is not c.targets[0]]
                    ts = [x for x in ast.walk(fn) if isinstance(x, ast.Name) and x.id == T and x is not c.value]
                    args_ = {a.arg for a in ast.walk(fn.args) if isinstance(a, ast.arg)} if hasattr(fn, "args") else set()
                    if X in args_ or T in args_:
                        continue
                    if any(id(x) not in tail_ids or id(x) in scoped for x in xs) or any(id(x) in tail_ids or id(x) in scoped for x in ts):
                        continue
                    if not any(isinstance(x.ctx, ast.Store) for x in ts):
                        continue
                    if any(isinstance(x, (ast.Global, ast.Nonlocal)) for x in ast.walk(fn)):
                        continue
                    in_loop = any(id(c) in {id(y) for y in ast.walk(l)} for l in loops)
                    if in_loop and any(isinstance(x.ctx, (ast.Store, ast.Del)) for x in xs):
                        continue
                    for x in ts:
                        x.id = X
                    del blk[j]
                    if not blk:
                        blk.append(ast.copy_location(ast.Pass(), c))
                    return True
        return False

    def forward_copy() -> bool:
        """third form: `T = X` with T made up and bound once, X a plain name bound at most once (a parameter: never): T is X"""
        if not hasattr(fn, "args"):
            return False
        params = {a.arg for a in ast.walk(fn.args) if isinstance(a, ast.arg)}
        st_count: Dict[str, int] = {}
        for x in ast.walk(fn):
            if isinstance(x, ast.Name) and isinstance(x.ctx, (ast.Store, ast.Del)):
                st_count[x.id] = st_count.get(x.id, 0) + 1
        if any(isinstance(x, (ast.Global, ast.Nonlocal)) for x in ast.walk(fn)):
            return False
        for owner in ast.walk(fn):
            for fld in ("body", "orelse", "finalbody"):
                blk = getattr(owner, fld, None)
                if not (isinstance(blk, list) and blk and isinstance(blk[0], ast.stmt)):
                    continue
                for j, c in enumerate(blk):
                    if isinstance(c, ast.Assign) and len(c.targets) == 1 and isinstance(c.targets[0], ast.Name) and isinstance(c.value, ast.Name):
                        T, X = c.targets[0].id, c.value.id
                        if T == X or not _is_generated(T) or st_count.get(T) != 1 or T in params:
                            continue
                        if (X in params and st_count.get(X, 0) > 0) or (X not in params and st_count.get(X, 0) != 1):
                            continue
                        for x in ast.walk(fn):
                            if isinstance(x, ast.Name) and x.id == T:
                                x.id = X
                        del blk[j]
                        if not blk:
                            blk.append(ast.copy_location(ast.Pass(), c))
                        return True
        return False

    changed = True
    rounds = 0
    while changed and rounds < 24:
        changed = False
        rounds += 1
        if forward_copy():
            changed = True
            continue
        if ordered_rename():
            changed = True
            continue
        stores: Dict[str, int] = {}
        for x in ast.walk(fn):
            if isinstance(x, ast.Name) and isinstance(x.ctx, (ast.Store, ast.Del)):
                stores[x.id] = stores.get(x.id, 0) + 1
        for owner in [n for n in ast.walk(fn)]:
            for fld in ("body", "orelse", "finalbody"):
                blk = getattr(owner, fld, None)
                if not (isinstance(blk, list) and blk and isinstance(blk[0], ast.stmt)):
                    continue
                for i, st in enumerate(blk):
                    if not (isinstance(st, ast.Assign) and len(st.targets) == 1 and isinstance(st.targets[0], ast.Name)):
                        continue
                    T = st.targets[0].id
                    if not _is_generated(T) or stores.get(T, 0) != 1:
                        continue
                    copies = [x for x in ast.walk(fn) if isinstance(x, ast.Assign) and isinstance(x.value, ast.Name) and x.value.id == T]
                    if len(copies) != 1 or not (len(copies[0].targets) == 1 and isinstance(copies[0].targets[0], ast.Name)):
                        continue
                    tail = blk[i + 1:]
                    real = (blk, i + 1)  # the list `tail` is a slice of, and where it starts
                    r = find_copy(tail, T)
                    if r is None and isinstance(owner, ast.Try) and fld == "body" and not any(names_in(s_, T) for s_ in blk[i + 1:]) and not owner.orelse and not owner.finalbody:
                        # bound in a try body whose handlers only leave: the search goes on after the try statement
                        Xc = copies[0].targets[0].id
                        if all(leaves_without(h.body, Xc) and names_in(ast.Module(body=h.body, type_ignores=[]), T) == 0 for h in owner.handlers) \
                                and not any(names_in(s_, Xc) for s_ in blk[i + 1:]):
                            for o2 in ast.walk(fn):
                                for f2 in ("body", "orelse", "finalbody"):
                                    b2 = getattr(o2, f2, None)
                                    if isinstance(b2, list) and any(x is owner for x in b2):
                                        k2 = [x is owner for x in b2].index(True)
                                        tail = b2[k2 + 1:]
                                        real = (b2, k2 + 1)
                                        r = find_copy(tail, T)
                    if r is None or r[0][r[1]] is not copies[0]:
                        continue
                    lst, j, X, conds = r
                    if X == T or _is_generated(X) and False:
                        continue
                    # nothing names X between T's binding and the copy; the skipped arms leave without naming X
                    ok = names_in(st.value, X) == 0
                    for c_ in conds:
                        if c_[0] == "pre":
                            ok = ok and not any(names_in(p_, X) for p_ in c_[1])
                        else:
                            ifst, other = c_
                            ok = ok and names_in(ifst.test, X) == 0 and (leaves_without(other, X))
                    ok = ok and not any(names_in(p_, X) for p_ in lst[:j])
                    # uses of T after the copy become uses of X: X must not be re-bound while T is still read - require that T is not read after the copy
                    after = lst[j + 1:]
                    ok = ok and not any(names_in(a_, T) for a_ in after)
                    if not ok:
                        continue
                    for x in ast.walk(fn):
                        if isinstance(x, ast.Name) and x.id == T:
                            x.id = X
                    if lst is tail:
                        del real[0][real[1] + j]
                    else:
                        del lst[j]
                        if not lst:
                            lst.append(ast.copy_location(ast.Pass(), st))
                    changed = True
                    break
                if changed:
                    break
            if changed:
                break


def _duplicate_merge_calls(tree: ast.Module) -> None:
    """C38: `if c: A else: B` followed by one call statement that reads two or more names bound in both arms (`n = K(p=p, q=q, dp=dp)` after the arms
    computed p, q, dp in two ways): the statement is copied to the end of both arms, so that each copy has one reaching binding per name.  Always
    exact (tail duplication)."""
    def bound(stmts: List[ast.stmt]) -> set:
        out = set()
        for s_ in stmts:
            for x in ast.walk(s_):
                if isinstance(x, ast.Name) and isinstance(x.ctx, ast.Store):
                    out.add(x.id)
        return out

    def leaves(stmts: List[ast.stmt]) -> bool:
        return bool(stmts) and isinstance(stmts[-1], (ast.Raise, ast.Return, ast.Break, ast.Continue))

    def do_block(body: List[ast.stmt]) -> None:
        i = 0
        while i + 1 < len(body):
            st, nx = body[i], body[i + 1]
            if isinstance(st, ast.If) and st.body and st.orelse and not leaves(st.body) and not leaves(st.orelse) \
                    and isinstance(nx, (ast.Assign, ast.Return, ast.Expr)) and isinstance(getattr(nx, "value", None), ast.Call) and sum(1 for _ in ast.walk(nx)) <= 80:
                both = bound(st.body) & bound(st.orelse)
                reads = {x.id for x in ast.walk(nx.value) if isinstance(x, ast.Name) and isinstance(x.ctx, ast.Load)}
                if len(both & reads) >= 2 and not any(isinstance(x, (ast.Lambda, ast.NamedExpr)) for x in ast.walk(nx)):
                    st.body.append(copy.deepcopy(nx))
                    st.orelse.append(copy.deepcopy(nx))
                    del body[i + 1]
                    continue
            i += 1

    for fn in ast.walk(tree):
        if isinstance(fn, (ast.FunctionDef, ast.AsyncFunctionDef)):
            for n in ast.walk(fn):
                for fld in ("body", "orelse", "finalbody"):
                    b = getattr(n, fld, None)
                    if isinstance(b, list) and b and isinstance(b[0], ast.stmt):
                        do_block(b)


def _dissolve_local_tuples(fn: ast.AST) -> None:
    """C39: a local bound once to a tuple display of names / constants (`segments = (h, p, s)`), read only as `segments[<const>]` or as the whole right
    side of an unpacking assignment of the same arity: each read is the element itself.  The element names must be bound at most once in the function
    (parameters: never re-bound) and the binding must not stand in a loop, so that every read sees the values the display saw."""
    parents: Dict[int, ast.AST] = {}
    for p_ in ast.walk(fn):
        for c_ in ast.iter_child_nodes(p_):
            parents[id(c_)] = p_
    stores: Dict[str, List[ast.Name]] = {}
    loads: Dict[str, List[ast.Name]] = {}
    for n in ast.walk(fn):
        if isinstance(n, ast.Name):
            (loads if isinstance(n.ctx, ast.Load) else stores).setdefault(n.id, []).append(n)
    params = {a.arg for a in ast.walk(getattr(fn, "args", ast.arguments(posonlyargs=[], args=[], kwonlyargs=[], kw_defaults=[], defaults=[]))) if isinstance(a, ast.arg)}
    for name, sts in list(stores.items()):
        if len(sts) != 1 or name in params:
            continue
        asg = parents.get(id(sts[0]))
        if not (isinstance(asg, ast.Assign) and len(asg.targets) == 1 and asg.targets[0] is sts[0] and isinstance(asg.value, ast.Tuple)):
            continue
        elts = asg.value.elts
        if not elts or not all(isinstance(e, (ast.Name, ast.Constant)) for e in elts):
            continue
        if any(isinstance(e, ast.Name) and (len(stores.get(e.id, [])) > 1 or (e.id in params and stores.get(e.id))) for e in elts):
            continue
        # not in a loop, not in a nested function
        x: Any = asg
        bad = False
        while id(x) in parents:
            x = parents[id(x)]
            if isinstance(x, (ast.For, ast.While, ast.AsyncFor)) or (isinstance(x, (ast.FunctionDef, ast.Lambda, ast.ClassDef)) and x is not fn):
                bad = True
                break
        if bad:
            continue
        plan = []
        for u in loads.get(name, []):
            par = parents.get(id(u))
            if isinstance(par, ast.Subscript) and par.value is u and isinstance(par.slice, ast.Constant) and isinstance(par.slice.value, int) and isinstance(par.ctx, ast.Load) \
                    and -len(elts) <= par.slice.value < len(elts):
                plan.append(("sub", par))
            elif isinstance(par, ast.Assign) and par.value is u and len(par.targets) == 1 and isinstance(par.targets[0], (ast.Tuple, ast.List)) and len(par.targets[0].elts) == len(elts) \
                    and not any(isinstance(t_, ast.Starred) for t_ in par.targets[0].elts):
                plan.append(("unpack", par))
            else:
                plan = None
                break
            y: Any = u
            while id(y) in parents:
                y = parents[id(y)]
                if isinstance(y, (ast.FunctionDef, ast.Lambda, ast.ClassDef)) and y is not fn:
                    plan = None
                    break
            if plan is None:
                break
        if not plan:
            continue
        for kind, node in plan:
            if kind == "sub":
                new_ = ast.copy_location(copy.deepcopy(elts[node.slice.value]), node)
                par = parents.get(id(node))
                for fld, val in ast.iter_fields(par):
                    if val is node:
                        setattr(par, fld, new_)
                    elif isinstance(val, list):
                        for j, x_ in enumerate(val):
                            if x_ is node:
                                val[j] = new_
            else:
                node.value = ast.copy_location(ast.Tuple(elts=[copy.deepcopy(e) for e in elts], ctx=ast.Load()), node.value)
        # the binding itself goes
        holder = parents.get(id(asg))
        for fld in ("body", "orelse", "finalbody"):
            b = getattr(holder, fld, None)
            if isinstance(b, list) and any(x_ is asg for x_ in b):
                b[:] = [x_ for x_ in b if x_ is not asg] or [ast.copy_location(ast.Pass(), asg)]
        if isinstance(holder, ast.Try):
            for h in holder.handlers:
                if any(x_ is asg for x_ in h.body):
                    h.body[:] = [x_ for x_ in h.body if x_ is not asg] or [ast.copy_location(ast.Pass(), asg)]
        return _dissolve_local_tuples(fn)  # positions changed: start over for the next candidate


def _drop_self_assignments(tree: ast.Module) -> None:
    """`x = x` on a plain name does nothing (it is what the else arm of `x = d if x is None else x` becomes once the expression is split)"""
    for n in ast.walk(tree):
        for fld in ("body", "orelse", "finalbody"):
            b = getattr(n, fld, None)
            if isinstance(b, list) and b and isinstance(b[0], ast.stmt):
                keep = [st for st in b if not (isinstance(st, ast.Assign) and len(st.targets) == 1 and isinstance(st.targets[0], ast.Name)
                                               and isinstance(st.value, ast.Name) and st.value.id == st.targets[0].id)]
                if len(keep) != len(b):
                    if not keep and fld == "body":
                        keep = [ast.copy_location(ast.Pass(), b[0])]
                    b[:] = keep


def _eliminate_result_flags(tree: ast.Module) -> None:
    """C40: a boolean result flag - `x = bool(E)` / a comparison / a constant; `if x: <loop that sets x = False and breaks>`; `return x` - is the early-return
    form: the final `return x` is copied to both arms of the test (and to each `break` of a loop it directly follows), and each copy returns the
    constant x is known to hold there: the one just assigned, or the polarity of the arm when no assignment of the arm can reach the copy.  Nothing
    is done unless every copy resolves to a constant."""
    def boolish(e: ast.expr) -> bool:
        if isinstance(e, ast.Constant):
            return isinstance(e.value, bool)
        if isinstance(e, ast.Compare):
            return True
        if isinstance(e, ast.UnaryOp) and isinstance(e.op, ast.Not):
            return True
        if isinstance(e, ast.Call) and isinstance(e.func, ast.Name) and e.func.id in ("bool", "isinstance", "callable", "hasattr", "all", "any") and not e.keywords:
            return True
        if isinstance(e, ast.BoolOp):
            return all(boolish(v) for v in e.values)
        return False

    def is_ret(st: ast.stmt, x: str) -> bool:
        return isinstance(st, ast.Return) and isinstance(st.value, ast.Name) and st.value.id == x

    def mentions(node: ast.AST, x: str) -> bool:
        return any(isinstance(n, ast.Name) and n.id == x for n in ast.walk(node))

    def resolve(stmts: List[ast.stmt], x: str, known: Optional[bool]) -> Optional[List[ast.stmt]]:
        """stmts ends with `return x`; known: the value of x on entry (None: unknown)"""
        stmts = [copy.deepcopy(s_) for s_ in stmts]
        # breaks of a loop that the final return directly follows leave through a copy of it
        if len(stmts) >= 2 and isinstance(stmts[-2], (ast.For, ast.While)) and not stmts[-2].orelse and is_ret(stmts[-1], x):
            loop = stmts[-2]

            def swap(lst: List[ast.stmt]) -> None:
                for k, s_ in enumerate(lst):
                    if isinstance(s_, ast.Break):
                        lst[k] = ast.copy_location(ast.Return(value=ast.Name(id=x, ctx=ast.Load())), s_)
                    elif isinstance(s_, (ast.For, ast.While)):
                        continue
                    else:
                        for fld in ("body", "orelse", "finalbody"):
                            b = getattr(s_, fld, None)
                            if isinstance(b, list) and b and isinstance(b[0], ast.stmt):
                                swap(b)
                        if isinstance(s_, ast.Try):
                            for h in s_.handlers:
                                swap(h.body)
            swap(loop.body)
        ok = [True]

        def fix(lst: List[ast.stmt], top: bool) -> None:
            k = 0
            while k < len(lst):
                s_ = lst[k]
                if is_ret(s_, x):
                    prev = lst[k - 1] if k else None
                    if isinstance(prev, ast.Assign) and len(prev.targets) == 1 and isinstance(prev.targets[0], ast.Name) and prev.targets[0].id == x \
                            and isinstance(prev.value, ast.Constant) and isinstance(prev.value.value, bool):
                        lst[k] = ast.copy_location(ast.Return(value=ast.Constant(value=prev.value.value)), s_)
                        del lst[k - 1]
                        continue
                    if top and k == len(lst) - 1 and known is not None:
                        lst[k] = ast.copy_location(ast.Return(value=ast.Constant(value=known)), s_)
                    else:
                        ok[0] = False
                else:
                    for fld in ("body", "orelse", "finalbody"):
                        b = getattr(s_, fld, None)
                        if isinstance(b, list) and b and isinstance(b[0], ast.stmt):
                            fix(b, False)
                    if isinstance(s_, ast.Try):
                        for h in s_.handlers:
                            fix(h.body, False)
                k += 1
        fix(stmts, True)
        if not ok[0]:
            return None
        # the final constant is right only if no assignment of x can reach it: none is left (each was consumed by the return that followed it)
        if any(isinstance(n, ast.Name) and n.id == x and isinstance(n.ctx, (ast.Store, ast.Del)) for s_ in stmts for n in ast.walk(s_)):
            return None
        if any(isinstance(n, ast.Name) and n.id == x for s_ in stmts for n in ast.walk(s_)):
            return None  # x read somewhere else in the arm: leave the whole thing alone
        return stmts

    def do_block(fn: ast.AST, body: List[ast.stmt]) -> None:
        i = 0
        while i + 2 < len(body) + 0:
            s0, s1, s2 = body[i], body[i + 1], body[i + 2]
            i += 1
            if not (isinstance(s0, ast.Assign) and len(s0.targets) == 1 and isinstance(s0.targets[0], ast.Name) and boolish(s0.value)):
                continue
            x = s0.targets[0].id
            if not is_ret(s2, x) or (i + 2) != len(body):
                continue
            # every binding of x in the function is boolean, x is not captured
            if any(isinstance(a_, ast.Assign) and any(isinstance(t_, ast.Name) and t_.id == x for t_ in a_.targets) and not boolish(a_.value) for a_ in ast.walk(fn)):
                continue
            if any(isinstance(g, (ast.FunctionDef, ast.Lambda, ast.ListComp, ast.SetComp, ast.DictComp, ast.GeneratorExp)) and g is not fn and mentions(g, x) for g in ast.walk(fn)):
                continue
            new: Optional[List[ast.stmt]] = None
            if isinstance(s1, ast.If) and ((isinstance(s1.test, ast.Name) and s1.test.id == x) or (isinstance(s1.test, ast.UnaryOp) and isinstance(s1.test.op, ast.Not)
                                                                                                     and isinstance(s1.test.operand, ast.Name) and s1.test.operand.id == x)):
                pos = isinstance(s1.test, ast.Name)
                a = resolve(list(s1.body) + [s2], x, pos)
                b = resolve(list(s1.orelse) + [s2], x, not pos)
                if a is not None and b is not None:
                    new = [s0, ast.copy_location(ast.If(test=s1.test, body=a, orelse=b), s1)]
            elif isinstance(s1, (ast.For, ast.While)) and isinstance(s0.value, ast.Constant):
                a = resolve([s1, s2], x, s0.value.value)
                if a is not None:
                    new = a  # the initial binding is dead: every return is a constant now
            if new is not None:
                body[i - 1:i + 2] = new
                for n_ in new:
                    ast.fix_missing_locations(n_)

    for fn in ast.walk(tree):
        if isinstance(fn, (ast.FunctionDef, ast.AsyncFunctionDef)):
            for n in ast.walk(fn):
                for fld in ("body", "orelse", "finalbody"):
                    b = getattr(n, fld, None)
                    if isinstance(b, list) and b and isinstance(b[0], ast.stmt):
                        do_block(fn, b)


def _strip_bool_in_tests(tree: ast.Module) -> None:
    """`if bool(E):` tests the truth of E, as `if E:` does (also under `not` and as an operand of `and` / `or` in a test)"""
    def strip(e: ast.expr) -> ast.expr:
        if isinstance(e, ast.Call) and isinstance(e.func, ast.Name) and e.func.id == "bool" and len(e.args) == 1 and not e.keywords and not isinstance(e.args[0], ast.Starred):
            return strip(e.args[0])
        if isinstance(e, ast.UnaryOp) and isinstance(e.op, ast.Not):
            e.operand = strip(e.operand)
        elif isinstance(e, ast.BoolOp):
            e.values = [strip(v) for v in e.values]
        return e
    for n in ast.walk(tree):
        if isinstance(n, (ast.If, ast.While, ast.IfExp, ast.Assert)):
            n.test = strip(n.test)


def _propagate_local_const_tuples(tree: ast.Module) -> None:
    """a local bound once to a tuple display of constants (`names = ("iv", "ciphertext", "tag")`) is that display wherever it is read"""
    for fn in ast.walk(tree):
        if not isinstance(fn, (ast.FunctionDef, ast.AsyncFunctionDef)):
            continue
        stores: Dict[str, int] = {}
        for x in ast.walk(fn):
            if isinstance(x, ast.Name) and isinstance(x.ctx, (ast.Store, ast.Del)):
                stores[x.id] = stores.get(x.id, 0) + 1
        params = {a.arg for a in ast.walk(fn.args) if isinstance(a, ast.arg)}
        if any(isinstance(x, (ast.Global, ast.Nonlocal)) for x in ast.walk(fn)):
            continue
        for owner in ast.walk(fn):
            for fld in ("body", "orelse", "finalbody"):
                blk = getattr(owner, fld, None)
                if not (isinstance(blk, list) and blk and isinstance(blk[0], ast.stmt)):
                    continue
                for st in list(blk):
                    if isinstance(st, ast.Assign) and len(st.targets) == 1 and isinstance(st.targets[0], ast.Name) and isinstance(st.value, ast.Tuple) and st.value.elts \
                            and (all(isinstance(e, ast.Constant) for e in st.value.elts) or all(isinstance(e, ast.Tuple) and e.elts and all(isinstance(c_, ast.Constant) for c_ in e.elts) for e in st.value.elts)) and stores.get(st.targets[0].id) == 1 and st.targets[0].id not in params \
                            and len(st.value.elts) <= 8:
                        nm = st.targets[0].id
                        val = st.value

                        class S(ast.NodeTransformer):
                            def visit_Name(self, n: ast.Name):
                                if n.id == nm and isinstance(n.ctx, ast.Load):
                                    return ast.copy_location(copy.deepcopy(val), n)
                                return n
                        S().visit(fn)
                        blk.remove(st)
                        if not blk:
                            blk.append(ast.copy_location(ast.Pass(), st))


def _shift_arithmetic(tree: ast.Module) -> None:
    """`len(x) << 3` is `len(x) * 8`, `n.bit_length() >> 3` is `n.bit_length() // 8` (left operand an int by construction: len(), bit_length(), or
    such a shift / product itself)"""
    def inty(e: ast.expr) -> bool:
        if isinstance(e, ast.Call) and isinstance(e.func, ast.Name) and e.func.id == "len":
            return True
        if isinstance(e, ast.Call) and isinstance(e.func, ast.Attribute) and e.func.attr == "bit_length":
            return True
        if isinstance(e, ast.BinOp) and isinstance(e.op, (ast.Mult, ast.Add, ast.Sub, ast.FloorDiv, ast.LShift, ast.RShift)):
            return inty(e.left) and (inty(e.right) or (isinstance(e.right, ast.Constant) and isinstance(e.right.value, int)))
        return False

    class Sh(ast.NodeTransformer):
        def visit_BinOp(self, n: ast.BinOp):
            self.generic_visit(n)
            if isinstance(n.op, (ast.LShift, ast.RShift)) and isinstance(n.right, ast.Constant) and isinstance(n.right.value, int) and not isinstance(n.right.value, bool) \
                    and 0 <= n.right.value <= 16 and inty(n.left):
                k = ast.copy_location(ast.Constant(value=2 ** n.right.value), n.right)
                return ast.copy_location(ast.BinOp(left=n.left, op=ast.Mult() if isinstance(n.op, ast.LShift) else ast.FloorDiv(), right=k), n)
            return n
    Sh().visit(tree)


def _unhoist_pure_aliases(fn: ast.AST) -> None:
    """C42: `segments = obj.segments` ... `segments["header"]`: a local bound once to a plain attribute chain and only read is that chain wherever it is
    read - provided nothing in the function can make the two differ: no store to an attribute of that name, the root not re-bound, and no call that is
    handed the root object (or made on it) between the binding and the last read.  (The hoisted spelling of a repeated `obj.segments[...]`.)"""
    if not hasattr(fn, "args"):
        return
    params = {a.arg for a in ast.walk(fn.args) if isinstance(a, ast.arg)}
    changed = True
    guard = 0
    while changed and guard < 10:
        changed = False
        guard += 1
        stmts: List[ast.stmt] = []

        def collect(body):
            for st in body:
                stmts.append(st)
                if isinstance(st, (ast.FunctionDef, ast.AsyncFunctionDef, ast.ClassDef)):
                    continue
                for fld in ("body", "orelse", "finalbody"):
                    b = getattr(st, fld, None)
                    if isinstance(b, list) and b and isinstance(b[0], ast.stmt):
                        collect(b)
                if isinstance(st, ast.Try):
                    for h in st.handlers:
                        collect(h.body)
        collect(fn.body)
        stores: Dict[str, int] = {}
        for x in ast.walk(fn):
            if isinstance(x, ast.Name) and isinstance(x.ctx, (ast.Store, ast.Del)):
                stores[x.id] = stores.get(x.id, 0) + 1
        attr_stores = {x.attr for x in ast.walk(fn) if isinstance(x, ast.Attribute) and isinstance(x.ctx, (ast.Store, ast.Del))}
        scoped = {id(x) for g in ast.walk(fn) if isinstance(g, (ast.FunctionDef, ast.AsyncFunctionDef, ast.Lambda, ast.ClassDef)) and g is not fn for x in ast.walk(g)}
        for i, st in enumerate(stmts):
            if not (isinstance(st, ast.Assign) and len(st.targets) == 1 and isinstance(st.targets[0], ast.Name) and isinstance(st.value, ast.Attribute)):
                continue
            nm = st.targets[0].id
            chain = st.value
            root = chain
            attrs = []
            while isinstance(root, ast.Attribute):
                attrs.append(root.attr)
                root = root.value
            if not isinstance(root, ast.Name) or nm in params or stores.get(nm) != 1 or nm == root.id:
                continue
            if (root.id in params and stores.get(root.id, 0) > 0) or (root.id not in params and stores.get(root.id, 0) > 1):
                continue
            if set(attrs) & attr_stores or any(a.startswith("__") and a.endswith("__") for a in attrs):
                continue
            uses = [x for x in ast.walk(fn) if isinstance(x, ast.Name) and x.id == nm and isinstance(x.ctx, ast.Load)]
            if not uses or any(id(u) in scoped for u in uses):
                continue
            # statements that hold a use, in order; all after the binding, in the binding's block or deeper
            idx = []
            ok = True
            for u in uses:
                hold = [k for k, s2 in enumerate(stmts) if any(y is u for y in ast.walk(s2))]
                if not hold or min(hold) <= i and not any(k > i for k in hold):
                    ok = False
                    break
                idx.append(max(hold))
            if not ok:
                continue
            last = max(idx)
            # between binding and last read: no call handed the root object or made on it (other than through the chain / the alias)
            for s2 in stmts[i + 1:last + 1]:
                heads = [s2] if not isinstance(s2, (ast.If, ast.For, ast.While, ast.Try, ast.With)) else \
                    [getattr(s2, "test", None) or getattr(s2, "iter", None)] + [it.context_expr for it in getattr(s2, "items", [])]
                for hnode in heads:
                    if hnode is None:
                        continue
                    for c in ast.walk(hnode):
                        if isinstance(c, ast.Call):
                            for a in list(c.args) + [k.value for k in c.keywords]:
                                # the root object itself handed over (a part of it - `root.x` - cannot re-bind the root's attributes)
                                under_attr = {id(y.value) for y in ast.walk(a) if isinstance(y, ast.Attribute)}
                                if any(isinstance(y, ast.Name) and y.id == root.id and id(y) not in under_attr for y in ast.walk(a)):
                                    ok = False
                            f = c.func
                            if isinstance(f, ast.Attribute) and isinstance(f.value, ast.Name) and f.value.id == root.id:
                                ok = False
            if not ok:
                continue

            class S(ast.NodeTransformer):
                def visit_Name(self, n: ast.Name):
                    if n.id == nm and isinstance(n.ctx, ast.Load):
                        return ast.copy_location(copy.deepcopy(chain), n)
                    return n
            for s2 in stmts[i + 1:]:
                for fld, val in list(ast.iter_fields(s2)):
                    if isinstance(val, ast.expr):
                        setattr(s2, fld, S().visit(val))
                    elif isinstance(val, list) and val and isinstance(val[0], ast.expr):
                        setattr(s2, fld, [S().visit(v) for v in val])
                    elif isinstance(val, list) and val and isinstance(val[0], ast.withitem):
                        for it in val:
                            it.context_expr = S().visit(it.context_expr)
                    elif isinstance(val, list) and val and isinstance(val[0], ast.keyword):
                        for k in val:
                            k.value = S().visit(k.value)
            # drop the binding
            for owner in ast.walk(fn):
                for fld in ("body", "orelse", "finalbody"):
                    b = getattr(owner, fld, None)
                    if isinstance(b, list) and any(x is st for x in b):
                        b[:] = [x for x in b if x is not st] or [ast.copy_location(ast.Pass(), st)]
                if isinstance(owner, ast.Try):
                    for h in owner.handlers:
                        if any(x is st for x in h.body):
                            h.body[:] = [x for x in h.body if x is not st] or [ast.copy_location(ast.Pass(), st)]
            changed = True
            break


def _operator_getters(tree: ast.Module) -> None:
    """C43: a module-level name bound once to `operator.itemgetter("a", "b")` / `attrgetter("x")`, called on a plain name or attribute chain:
    `G(d)` is `(d["a"], d["b"])` (one key: `d["a"]`), `A(o)` is `o.x`.  `itertools.chain(<display>, <display>)` is the display of both."""
    nst: Dict[str, int] = {}
    for n_ in ast.walk(tree):
        if isinstance(n_, ast.Name) and isinstance(n_.ctx, (ast.Store, ast.Del)):
            nst[n_.id] = nst.get(n_.id, 0) + 1
    getters: Dict[str, Tuple[str, List[Any]]] = {}
    for st in tree.body:
        tg = st.targets[0] if isinstance(st, ast.Assign) and len(st.targets) == 1 else (st.target if isinstance(st, ast.AnnAssign) else None)
        v = getattr(st, "value", None)
        if isinstance(tg, ast.Name) and nst.get(tg.id) == 1 and isinstance(v, ast.Call) and not v.keywords and v.args and all(isinstance(a, ast.Constant) for a in v.args):
            f = v.func
            nm = f.id if isinstance(f, ast.Name) else (f.attr if isinstance(f, ast.Attribute) and isinstance(f.value, ast.Name) and f.value.id == "operator" else None)
            if nm in ("itemgetter", "attrgetter") and (nm == "itemgetter" or all(isinstance(a.value, str) and a.value.isidentifier() for a in v.args)):
                getters[tg.id] = (nm, [a.value for a in v.args])

    def plain(e: ast.expr) -> bool:
        while isinstance(e, ast.Attribute):
            e = e.value
        return isinstance(e, ast.Name)

    class G(ast.NodeTransformer):
        def visit_Call(self, n: ast.Call):
            self.generic_visit(n)
            f = n.func
            if isinstance(f, ast.Name) and f.id in getters and len(n.args) == 1 and not n.keywords and plain(n.args[0]):
                kind, keys = getters[f.id]
                if kind == "itemgetter":
                    parts: List[ast.expr] = [ast.Subscript(value=copy.deepcopy(n.args[0]), slice=ast.Constant(value=k), ctx=ast.Load()) for k in keys]
                else:
                    parts = [ast.Attribute(value=copy.deepcopy(n.args[0]), attr=k, ctx=ast.Load()) for k in keys]
                new = parts[0] if len(parts) == 1 else ast.Tuple(elts=parts, ctx=ast.Load())
                return ast.copy_location(new, n)
            cn = f.id if isinstance(f, ast.Name) else (f.attr if isinstance(f, ast.Attribute) and isinstance(f.value, ast.Name) and f.value.id == "itertools" else None)
            if cn == "chain" and n.args and not n.keywords and all(isinstance(a, (ast.List, ast.Tuple)) and not any(isinstance(e, ast.Starred) for e in a.elts) for a in n.args):
                return ast.copy_location(ast.List(elts=[e for a in n.args for e in a.elts], ctx=ast.Load()), n)
            return n
    for fn in ast.walk(tree):
        if isinstance(fn, (ast.FunctionDef, ast.AsyncFunctionDef)):
            local = {x.id for x in ast.walk(fn) if isinstance(x, ast.Name) and isinstance(x.ctx, (ast.Store, ast.Del))} | {a.arg for a in ast.walk(fn.args) if isinstance(a, ast.arg)}
            if local & (set(getters) | {"chain"}):
                continue
            G().visit(fn)


def canonicalise(tree: ast.Module, module: str = "") -> ast.Module:
    if os.environ.get("JV_CANON_C16", "0") == "1":  # off: the reference tree itself uses `all(...)` tests that rules address (is_list_str); the any / all idiom is handled in the rules
        _any_all_to_loops(tree)
    if os.environ.get("JV_CANON_C41", "1") == "1":
        _propagate_local_const_tuples(tree)
        _shift_arithmetic(tree)
    if os.environ.get("JV_CANON_C43", "1") == "1":
        _operator_getters(tree)
    if os.environ.get("JV_CANON_C15", "1") == "1":
        # only tables the rule catalogue does not know (module-level names that are not in the reference list): a loop the reference tree already has stays
        from .renames import reference
        known = {q.split(":", 1)[1] for q in reference()[1] if q.startswith(module + ":")}
        _unroll_table_loops(tree, known)
    if os.environ.get("JV_CANON_C14", "1") == "1":
        tree = _DropAnn().visit(tree)
        tree = _StripCasts(_typing_names(tree)).visit(tree)
        for n_ in ast.walk(tree):
            for fld_ in ("body", "orelse", "finalbody"):
                b_ = getattr(n_, fld_, None)
                if isinstance(b_, list) and len(b_) > 1 and any(isinstance(x_, ast.Pass) for x_ in b_):
                    b_[:] = [x_ for x_ in b_ if not isinstance(x_, ast.Pass)] or [b_[0]]
    if os.environ.get("JV_CANON_C27", "1") == "1":
        _hoist_walrus(tree)
    if os.environ.get("JV_CANON_C34", "1") == "1":
        _segment_lists(tree)
    if os.environ.get("JV_CANON_C35", "1") == "1":
        _next_search(tree)
    if os.environ.get("JV_CANON_C40", "1") == "1":
        _eliminate_result_flags(tree)
    if os.environ.get("JV_CANON_C16R", "1") == "1":
        _return_any_all(tree)
    if os.environ.get("JV_CANON_C28", "1") == "1":
        from .renames import reference as _ref
        _bool_tables(tree, {q.split(":", 1)[1] for q in _ref()[1] if q.startswith(module + ":")})
    if os.environ.get("JV_CANON_C11", "1") == "1":
        tree = _Split().visit(tree)
        _drop_self_assignments(tree)
        tree.body = _nest_guards(tree.body, False)
    if os.environ.get("JV_CANON_C39", "1") == "1":
        for n in ast.walk(tree):
            if isinstance(n, (ast.FunctionDef, ast.AsyncFunctionDef)):
                _dissolve_local_tuples(n)
    if os.environ.get("JV_CANON_C42", "1") == "1":
        for n in ast.walk(tree):
            if isinstance(n, (ast.FunctionDef, ast.AsyncFunctionDef)):
                _unhoist_pure_aliases(n)
    if os.environ.get("JV_CANON_C25", "1") == "1":
        _split_tuple_assigns(tree)
    tree = _Canon().visit(tree)
    if os.environ.get("JV_CANON_C22", "1") == "1":
        _merge_same_test_ifs(tree)
    if os.environ.get("JV_CANON_C24", "1") == "1":
        _thread_sentinels(tree)
    if os.environ.get("JV_CANON_C38", "1") == "1":
        _duplicate_merge_calls(tree)
    if os.environ.get("JV_CANON_C43", "1") == "1":
        _operator_getters(tree)
    for n in ast.walk(tree):
        if isinstance(n, (ast.FunctionDef, ast.AsyncFunctionDef)):
            if os.environ.get("JV_CANON_C36", "1") == "1":
                _coalesce_temp_copies(n)
            _inline_return_temps(n)
            if os.environ.get("JV_CANON_C5", "1") == "1":
                _inline_single_use_temps(n)
    if os.environ.get("JV_CANON_C43", "1") == "1":
        _operator_getters(tree)  # again: single-use temporaries were written out meanwhile
    _strip_bool_in_tests(tree)
    ast.fix_missing_locations(tree)
    return tree
