"""Checker self-test: single-edit variants of the *current* /repo/src applied on scratch copies.

breaking variants must be reported (exit 1) by the named property's check, and the report must name the expected
rule; benign variants must stay silent (exit 0).  Scratch copies live under $TMPDIR/jv-selftest-* and are
removed immediately.  Informational: never part of a property verdict."""
from __future__ import annotations
import ast
import concurrent.futures as cf
import importlib
import json
import os
import shutil
import subprocess
import sys
import tempfile
import time
from typing import Dict, List, Optional, Tuple

VERIF = os.path.dirname(os.path.dirname(os.path.dirname(os.path.abspath(__file__))))
REPO = os.environ.get("JV_REPO", "/repo")
CROSS = bool(os.environ.get("JV_SELFTEST_CROSS"))


def load_variants() -> List[dict]:
    from . import variants
    importlib.reload(variants)
    return variants.VARIANTS


def apply_variant(v: dict, dst_repo: str) -> Optional[str]:
    """returns None on success or a reason string when the variant is stale"""
    for edit in v["edits"]:
        path = os.path.join(dst_repo, "src", "joserfc", edit["file"])
        if not os.path.exists(path):
            return f"file missing: {edit['file']}"
        src = open(path).read()
        cnt = src.count(edit["old"])
        if cnt != edit.get("count", 1):
            return f"anchor text occurs {cnt}x (expected {edit.get('count', 1)}) in {edit['file']}"
        src = src.replace(edit["old"], edit["new"])
        try:
            ast.parse(src)
        except SyntaxError as e:
            return f"variant does not parse: {e}"
        with open(path, "w") as fh:
            fh.write(src)
    return None


def run_variant(v: dict) -> dict:
    t0 = time.time()
    tmp = tempfile.mkdtemp(prefix="jv-selftest-")
    try:
        os.makedirs(os.path.join(tmp, "src"))
        shutil.copytree(os.path.join(REPO, "src", "joserfc"), os.path.join(tmp, "src", "joserfc"),
                        ignore=shutil.ignore_patterns("__pycache__"))
        stale = apply_variant(v, tmp)
        if stale:
            return {"id": v["id"], "status": "stale", "why": stale}
        env = dict(os.environ)
        env["JV_CACHE"] = os.path.join(tmp, ".cache")
        p = subprocess.run([sys.executable, "-m", "jv", "check", v["prop"], "--repo", tmp, "--no-write"],
                           cwd=VERIF, capture_output=True, text=True, timeout=600, env=env)
        out = p.stdout + p.stderr
        rules = sorted({ln.split()[0] for ln in out.splitlines() if ln.startswith("  R") or ln.startswith("  E")})
        kind = v["kind"]
        if kind == "benign" and CROSS and p.returncode == 0:
            # a behaviour-preserving edit must leave *every* property's check silent, not just its own
            for i in range(1, 21):
                q = "C%02d" % i
                if q == v["prop"] or q in v.get("also", []):
                    continue
                p2 = subprocess.run([sys.executable, "-m", "jv", "check", q, "--repo", tmp, "--no-write"],
                                    cwd=VERIF, capture_output=True, text=True, timeout=600, env=env)
                if p2.returncode != 0:
                    p = p2
                    out = f"[cross-check {q}]\n" + p2.stdout + p2.stderr
                    rules = sorted({ln.split()[0] for ln in out.splitlines() if ln.startswith("  R") or ln.startswith("  E")})
                    break
        if kind == "break":
            ok = p.returncode == 1 and (not v.get("rule") or any(r.startswith(v["rule"]) for r in rules))
        else:
            ok = p.returncode == 0
        return {"id": v["id"], "status": "ok" if ok else "FAIL", "rc": p.returncode, "rules": rules, "kind": kind,
                "prop": v["prop"], "wall": round(time.time() - t0, 1), "tail": out[-1500:] if not ok else ""}
    finally:
        shutil.rmtree(tmp, ignore_errors=True)


def run_many(vs: List[dict], jobs: int) -> List[dict]:
    with cf.ThreadPoolExecutor(max_workers=jobs) as ex:
        return list(ex.map(run_variant, vs))


def summarize(res: List[dict]) -> Dict[str, int]:
    s = {"break_detected": 0, "break_total": 0, "benign_silent": 0, "benign_total": 0, "stale": 0}
    for r in res:
        if r["status"] == "stale":
            s["stale"] += 1
            continue
        if r["kind"] == "break":
            s["break_total"] += 1
            s["break_detected"] += r["status"] == "ok"
        else:
            s["benign_total"] += 1
            s["benign_silent"] += r["status"] == "ok"
    return s


def main(props: List[str], jobs: int, list_only: bool) -> int:
    vs = load_variants()
    if props:
        want = {p.upper() for p in props}
        vs = [v for v in vs if v["prop"] in want or v["id"] in props]
    if list_only:
        for v in vs:
            print(f"{v['id']:40s} {v['prop']} {v['kind']:6s} {v.get('rule', ''):8s} {v['what']}")
        return 0
    t0 = time.time()
    res = run_many(vs, jobs)
    bad = 0
    for r in res:
        if r["status"] == "ok":
            print(f"ok    {r['id']:42s} {r['kind']:6s} rc={r['rc']} rules={','.join(r['rules'])[:60]} {r['wall']}s")
        elif r["status"] == "stale":
            print(f"stale {r['id']:42s} {r['why']}")
        else:
            bad += 1
            print(f"FAIL  {r['id']:42s} {r['kind']:6s} rc={r['rc']} rules={','.join(r['rules'])}\n{r['tail']}")
    s = summarize(res)
    print(f"selftest: {json.dumps(s)} wall={time.time() - t0:.1f}s")
    return 1 if bad else 0


def informational(prop: str) -> None:
    """thorough tier: run this property's variants and report (never changes the verdict)"""
    try:
        vs = [v for v in load_variants() if v["prop"] == prop]
        if not vs:
            return
        res = run_many(vs, 16)
        s = summarize(res)
        print(f"selftest[{prop}] mutants_detected={s['break_detected']}/{s['break_total']} "
              f"benign_silent={s['benign_silent']}/{s['benign_total']} stale={s['stale']}")
        for r in res:
            if r["status"] == "FAIL":
                print(f"  selftest miss: {r['id']} ({r['kind']}) rc={r['rc']}")
        # append to the evidence file written by the verdict run
        path = os.path.join(VERIF, "evidence", f"{prop}.json")
        if os.path.exists(path):
            ev = json.load(open(path))
            ev["coverage"]["checker_selftest"] = {**s, "variants": [{k: r.get(k) for k in ("id", "status", "kind", "rules")} for r in res]}
            tmp = path + ".tmp%d" % os.getpid()
            json.dump(ev, open(tmp, "w"), indent=1, default=str)
            os.replace(tmp, path)
    except Exception as e:  # informational only
        print(f"selftest[{prop}] skipped: {type(e).__name__}: {e}")
