"""Single-edit variants of /repo/src/joserfc used to test the checker both ways (DESIGN section 8).

kind=break : must be reported by property `prop`, report naming rule `rule`
kind=benign: behaviour-preserving rewrite; the property's check must stay silent
Edits are exact-substring replacements validated to occur exactly once and to parse; a variant whose anchor
text no longer exists is reported as *stale*, never as a pass."""
from __future__ import annotations
from typing import List

VARIANTS: List[dict] = []


def V(id: str, prop: str, kind: str, rule: str, what: str, file: str, old: str, new: str, **kw) -> None:
    VARIANTS.append({"id": id, "prop": prop, "kind": kind, "rule": rule, "what": what,
                     "edits": [{"file": file, "old": old, "new": new, **kw}]})


def V2(id: str, prop: str, kind: str, rule: str, what: str, edits: list) -> None:
    VARIANTS.append({"id": id, "prop": prop, "kind": kind, "rule": rule, "what": what,
                     "edits": [{"file": f, "old": o, "new": n} for f, o, n in edits]})


# ------------------------------------------------------------------------------------------------ C01
V("c01-drop-raise-compact", "C01", "break", "R01.1", "deserialize_compact ignores the verdict",
  "jws.py", "    if not validate_compact(obj, public_key, algorithms, registry):\n        raise BadSignatureError()\n",
  "    validate_compact(obj, public_key, algorithms, registry)\n")
V("c01-drop-raise-json", "C01", "break", "R01.1", "deserialize_json ignores the flattened verdict",
  "jws.py", "        if not verify_flattened_json(flattened_obj, registry, find_key):\n            raise BadSignatureError()\n",
  "        verify_flattened_json(flattened_obj, registry, find_key)\n")
V("c01-7797-drop-raise", "C01", "break", "R01.1", "rfc7797 compact ignores alg.verify verdict",
  "rfc7797/compact.py", "    if not alg.verify(signing_input, sig, key):\n        raise BadSignatureError()\n",
  "    alg.verify(signing_input, sig, key)\n")
V("c01-rebuild-signing-input", "C01", "break", "R01.3", "verify_compact rebuilds the signing input from the parsed header",
  "rfc7515/compact.py", '    signing_input = obj.segments["header"] + b"." + obj.segments["payload"]\n    sig = urlsafe_b64decode',
  '    signing_input = json_b64encode(obj.protected) + b"." + obj.segments["payload"]\n    sig = urlsafe_b64decode')
V("c01-json-rebuild-protected", "C01", "break", "R01.3", "verify_signature re-encodes member.protected",
  "rfc7515/json.py", '        protected_segment = signature["protected"].encode("utf-8")\n    else:\n        protected_segment = b""\n    sig = urlsafe_b64decode(',
  '        protected_segment = json_b64encode(member.protected)\n    else:\n        protected_segment = b""\n    sig = urlsafe_b64decode(')
V("c01-payload-from-other-segment", "C01", "break", "R01.4", "extract_compact decodes the payload from the header segment",
  "rfc7515/compact.py", "        payload = urlsafe_b64decode(payload_segment)\n    except (TypeError, ValueError):\n        raise DecodeError(\"Invalid payload\")\n\n    obj = CompactSignature(protected, payload)",
  "        payload = urlsafe_b64decode(signature_segment)\n    except (TypeError, ValueError):\n        raise DecodeError(\"Invalid payload\")\n\n    obj = CompactSignature(protected, payload)")
V("c01-except-returns-true", "C01", "break", "R01.6", "RSA verify returns True on InvalidSignature",
  "rfc7518/jws_algs.py", "            op_key.verify(sig, msg, self.padding, self.hash_alg())\n            return True\n        except InvalidSignature:\n            return False\n\n\nclass ECAlgModel",
  "            op_key.verify(sig, msg, self.padding, self.hash_alg())\n            return True\n        except InvalidSignature:\n            return True\n\n\nclass ECAlgModel")
V("c01-ec-drop-length-guard", "C01", "break", "R01.6", "EC verify without the R||S length guard",
  "rfc7518/jws_algs.py", "        if len(sig) != 2 * length:\n            return False\n\n", "")
V("c01-hmac-compare-prefix", "C01", "break", "R01.6", "HMAC verify compares only msg-independent value",
  "rfc7518/jws_algs.py", "        return hmac.compare_digest(sig, v_sig)", "        return hmac.compare_digest(sig, sig)")
V("c01-none-verifies", "C01", "break", "R01.6", "none.verify returns True for an empty signature",
  "rfc7518/jws_algs.py", "    def verify(self, msg: bytes, sig: bytes, key: t.Any) -> bool:\n        return False\n",
  "    def verify(self, msg: bytes, sig: bytes, key: t.Any) -> bool:\n        return sig == b\"\"\n")
V("c01-general-any-signature", "C01", "break", "R01.2", "general JSON accepts when any one signature verifies",
  "rfc7515/json.py", "        if not verify_signature(member, signature, payload_segment, registry, find_key):\n            return False\n    return True\n",
  "        if verify_signature(member, signature, payload_segment, registry, find_key):\n            return True\n    return False\n")
V("c01-benign-join", "C01", "benign", "", "verify_compact builds the input with b'.'.join",
  "rfc7515/compact.py", '    signing_input = obj.segments["header"] + b"." + obj.segments["payload"]\n    sig = urlsafe_b64decode',
  '    signing_input = b".".join([obj.segments["header"], obj.segments["payload"]])\n    sig = urlsafe_b64decode')
V("c01-benign-verdict-local", "C01", "benign", "", "verdict bound to a local before the test",
  "jws.py", "    if not validate_compact(obj, public_key, algorithms, registry):\n        raise BadSignatureError()\n",
  "    verified = validate_compact(obj, public_key, algorithms, registry)\n    if not verified:\n        raise BadSignatureError()\n")
V("c01-benign-inline-verify-compact", "C01", "benign", "", "validate_compact inlines verify_compact",
  "jws.py", "    return verify_compact(obj, alg, key)\n",
  "    signing_input = obj.segments[\"header\"] + b\".\" + obj.segments[\"payload\"]\n    from .util import urlsafe_b64decode as _dec\n    return alg.verify(signing_input, _dec(obj.segments[\"signature\"]), key)\n")

# ------------------------------------------------------------------------------------------------ C05
V("c05-hs384-recommended", "C05", "break", "R05.1", "HS384 becomes recommended",
  "rfc7518/jws_algs.py", "    HMACAlgModel(384),  # HS384", "    HMACAlgModel(384, True),  # HS384")
V("c05-rsa15-recommended", "C05", "break", "R05.1", "RSA1_5 becomes recommended",
  "rfc7518/jwe_algs.py", 'RSAAlgModel("RSA1_5", "RSAES-PKCS1-v1_5", padding.PKCS1v15()),', 'RSAAlgModel("RSA1_5", "RSAES-PKCS1-v1_5", padding.PKCS1v15(), True),')
V("c05-gate-or-recommended", "C05", "break", "R05.3", "explicit allow-list also admits recommended names",
  "rfc7515/registry.py", "            if name not in self.allowed:\n", "            if name not in self.allowed and name not in self.recommended:\n")
V("c05-jwe-gate-skip-recommended", "C05", "break", "R05.3", "JWE gate without the recommended check",
  "rfc7516/registry.py", "            if name not in self.recommended:\n                raise UnsupportedAlgorithmError(f'Algorithm of \"{name}\" is not recommended')\n", "            pass\n")
V("c05-get-enc-bypass", "C05", "break", "R05.3", "get_enc skips the gate",
  "rfc7516/registry.py", "        registry = self.algorithms[\"enc\"]\n        self._check_algorithm(name, registry)\n", "        registry = self.algorithms[\"enc\"]\n")
V("c05-direct-table-read", "C05", "break", "R05.2", "perform_decrypt indexes the class table directly",
  "rfc7516/message.py", "def _perform_decrypt(obj: EncryptionData, registry: JWERegistry) -> None:\n    enc = registry.get_enc(obj.protected[\"enc\"])",
  "def _perform_decrypt(obj: EncryptionData, registry: JWERegistry) -> None:\n    enc = registry.algorithms[\"enc\"][obj.protected[\"enc\"]]")
V("c05-leak-allowlist-default", "C05", "break", "R05.4", "construct_registry caches the allow-list on the default registry",
  "rfc7515/registry.py", "    if algorithms:\n        registry = JWSRegistry(algorithms=algorithms)\n    else:",
  "    if algorithms:\n        default_registry.allowed = algorithms\n        registry = default_registry\n    else:")
V("c05-none-true", "C05", "break", "R05.6", "none.verify accepts",
  "rfc7518/jws_algs.py", "    def verify(self, msg: bytes, sig: bytes, key: t.Any) -> bool:\n        return False\n",
  "    def verify(self, msg: bytes, sig: bytes, key: t.Any) -> bool:\n        return not sig\n")
V("c05-register-in-operation", "C05", "break", "R05.7", "decrypt_compact registers the draft algorithms as a side effect",
  "jwe.py", "    obj = extract_compact(to_bytes(value))\n    if algorithms:", "    obj = extract_compact(to_bytes(value))\n    register_algorithms()\n    if algorithms:")
V("c05-benign-is-not-none", "C05", "benign", "", "gate rewritten with early return",
  "rfc7515/registry.py", "        if self.allowed:\n            if name not in self.allowed:\n                raise UnsupportedAlgorithmError(f'Algorithm of \"{name}\" is not allowed')\n        else:\n            if name not in self.recommended:\n                raise UnsupportedAlgorithmError(f'Algorithm of \"{name}\" is not recommended')\n",
  "        if self.allowed and name not in self.allowed:\n            raise UnsupportedAlgorithmError(f'Algorithm of \"{name}\" is not allowed')\n        if not self.allowed and name not in self.recommended:\n            raise UnsupportedAlgorithmError(f'Algorithm of \"{name}\" is not recommended')\n")

# ------------------------------------------------------------------------------------------------ C02
V("c02-aad-from-parsed-header", "C02", "break", "R02.2", "AAD rebuilt from the parsed protected header",
  "rfc7516/message.py", '    aad = obj.base64_segments["aad"]\n    if isinstance(obj, BaseJSONEncryption) and obj.aad:\n        aad = aad + b"." + urlsafe_b64encode(obj.aad)\n\n    msg = enc.decrypt(',
  '    aad = json_b64encode(obj.protected)\n    if isinstance(obj, BaseJSONEncryption) and obj.aad:\n        aad = aad + b"." + urlsafe_b64encode(obj.aad)\n\n    msg = enc.decrypt(')
V("c02-json-aad-reencoded", "C02", "break", "R02.2", "JSON extractor stores a re-encoded protected header as AAD",
  "rfc7516/json.py", '        "aad": to_bytes(data["protected"]),', '        "aad": json_b64encode(json_b64decode(data["protected"])),')
V("c02-cbc-truncated-tag", "C02", "break", "R02.4", "CBC-HMAC compares only len(tag) octets",
  "rfc7518/jwe_encs.py", "        if not hmac.compare_digest(ctag, tag):", "        if not hmac.compare_digest(ctag[:len(tag)], tag):")
V("c02-cbc-decrypt-before-tag", "C02", "break", "R02.4", "CBC decrypts before checking the tag",
  "rfc7518/jwe_encs.py", "        ctag = self._hmac(ciphertext, aad, iv, hkey)\n        if not hmac.compare_digest(ctag, tag):\n            raise DecodeError(\"tag does not match\")\n\n        cipher = Cipher(AES(dkey), CBC(iv), backend=default_backend())\n        d = cipher.decryptor()\n        data = d.update(ciphertext) + d.finalize()\n",
  "        cipher = Cipher(AES(dkey), CBC(iv), backend=default_backend())\n        d = cipher.decryptor()\n        data = d.update(ciphertext) + d.finalize()\n        ctag = self._hmac(ciphertext, aad, iv, hkey)\n        if not hmac.compare_digest(ctag, tag):\n            raise DecodeError(\"tag does not match\")\n\n")
V("c02-cbc-mac-without-aad", "C02", "break", "R02.4", "CBC-HMAC tag computed without the AAD",
  "rfc7518/jwe_encs.py", "        ctag = self._hmac(ciphertext, aad, iv, hkey)\n        if not", "        ctag = self._hmac(ciphertext, b\"\", iv, hkey)\n        if not")
V("c02-gcm-missing-aad", "C02", "break", "R02.4", "GCM decrypt does not authenticate the AAD",
  "rfc7518/jwe_encs.py", "        d = cipher.decryptor()\n        d.authenticate_additional_data(aad)\n        try:", "        d = cipher.decryptor()\n        try:")
V("c02-chacha-no-verify", "C02", "break", "R02.4", "ChaCha20 decrypts without verifying the tag",
  "drafts/jwe_chacha20.py", "        return chacha.decrypt_and_verify(ciphertext, tag)", "        return chacha.decrypt(ciphertext)")
V("c02-drop-check-iv", "C02", "break", "R02.5", "check_iv removed from the decrypt pipeline",
  "rfc7516/message.py", "    iv = obj.bytes_segments[\"iv\"]\n    enc.check_iv(iv)\n", "    iv = obj.bytes_segments[\"iv\"]\n")
V("c02-check-iv-weak", "C02", "break", "R02.5", "check_iv only refuses short IVs",
  "rfc7516/models.py", "        if len(iv) * 8 != self.iv_size:  # pragma: no cover", "        if len(iv) * 8 < self.iv_size:  # pragma: no cover")
V("c02-direct-ek-guard-off", "C02", "break", "R02.6", "non-empty encrypted key accepted in direct mode",
  "rfc7516/message.py", "        if recipient.encrypted_key:  # pragma: no cover\n            raise InvalidEncryptedKeyError()\n\n", "")
V("c02-verify-all-default-false", "C02", "break", "R02.7", "verify_all_recipients defaults to False",
  "rfc7516/registry.py", "            verify_all_recipients: bool = True,", "            verify_all_recipients: bool = False,")
V("c02-swallow-recipient-errors", "C02", "break", "R02.7", "recipient errors swallowed unconditionally",
  "rfc7516/message.py", "            if registry.verify_all_recipients:\n                raise error\n", "            pass\n")
V("c02-no-cek-length-check", "C02", "break", "R02.7", "CEK length check dropped",
  "rfc7516/message.py", "    cek = cek_set.pop()\n    if len(cek) * 8 != enc.cek_size:  # pragma: no cover\n        raise InvalidCEKLengthError(f\"A key of size {enc.cek_size} bits MUST be used\")\n", "    cek = cek_set.pop()\n")
V("c02-multi-cek-allowed", "C02", "break", "R02.7", "different CEKs from recipients tolerated",
  "rfc7516/message.py", "    if len(cek_set) > 1:  # pragma: no cover\n        raise DecodeError('Multiple \"cek\" found')\n", "")
V("c02-ec-curve-guard-off", "C02", "break", "R02.8", "ECDH exchange without the curve equality guard",
  "rfc7518/ec_key.py", "        if self.private_key and self.curve_name == key.curve_name:", "        if self.private_key:")
V("c02-plaintext-from-ciphertext", "C02", "break", "R02.1", "plaintext set from the raw ciphertext when zip is absent",
  "rfc7516/message.py", "    else:\n        obj.plaintext = msg\n", "    else:\n        obj.plaintext = ciphertext\n")
V("c02-key-from-module-state", "C02", "break", "R02.9", "A128KW unwraps with a key cached on the model",
  "rfc7518/jwe_algs.py", "        op_key = key.get_op_key(\"unwrapKey\")\n        assert recipient.encrypted_key is not None\n        return self.unwrap_cek(recipient.encrypted_key, op_key)",
  "        op_key = getattr(self, \"_last_key\", key).get_op_key(\"unwrapKey\")\n        assert recipient.encrypted_key is not None\n        return self.unwrap_cek(recipient.encrypted_key, op_key)")
V("c02-benign-neq-compare", "C02", "benign", "", "CBC-HMAC tag compared with != instead of compare_digest",
  "rfc7518/jwe_encs.py", "        if not hmac.compare_digest(ctag, tag):", "        if ctag != tag:")
V("c02-benign-cek-check-order", "C02", "benign", "", "multiple/empty CEK guards swapped",
  "rfc7516/message.py", "    if not cek_set:\n        raise DecodeError('Invalid recipients')\n\n    if len(cek_set) > 1:  # pragma: no cover\n        raise DecodeError('Multiple \"cek\" found')\n",
  "    if len(cek_set) > 1:  # pragma: no cover\n        raise DecodeError('Multiple \"cek\" found')\n\n    if len(cek_set) == 0:\n        raise DecodeError('Invalid recipients')\n")
V("c02-benign-aad-local", "C02", "benign", "", "received header bound to a local first",
  "rfc7516/message.py", '    aad = obj.base64_segments["aad"]\n    if isinstance(obj, BaseJSONEncryption) and obj.aad:\n        aad = aad + b"." + urlsafe_b64encode(obj.aad)\n\n    msg = enc.decrypt(',
  '    header_segment = obj.base64_segments["aad"]\n    aad = header_segment\n    if isinstance(obj, BaseJSONEncryption) and obj.aad:\n        aad = b".".join([header_segment, urlsafe_b64encode(obj.aad)])\n\n    msg = enc.decrypt(')

# ------------------------------------------------------------------------------------------------ C06
V("c06-drop-check-use-validate", "C06", "break", "R06.1", "check_use removed from validate_compact",
  "jws.py", "    key: Key = guess_key(public_key, obj)\n    key.check_use(\"sig\")\n", "    key: Key = guess_key(public_key, obj)\n")
V("c06-drop-check-use-decrypt", "C06", "break", "R06.1", "check_use removed from decrypt_compact",
  "jwe.py", "    key = guess_key(private_key, recipient)\n    key.check_use(\"enc\")\n    recipient.recipient_key = key\n    if sender_key:\n        recipient.sender_key = _guess_sender_key(recipient, sender_key)\n    perform_decrypt",
  "    key = guess_key(private_key, recipient)\n    recipient.recipient_key = key\n    if sender_key:\n        recipient.sender_key = _guess_sender_key(recipient, sender_key)\n    perform_decrypt")
V("c06-wrong-use-literal", "C06", "break", "R06.1", "JWS signing checks use 'enc'",
  "jws.py", "    key: Key = guess_key(private_key, obj, True)\n    key.check_use(\"sig\")", "    key: Key = guess_key(private_key, obj, True)\n    key.check_use(\"enc\")")
V("c06-preset-recipient-key-unchecked", "C06", "break", "R06.1", "encrypt_json skips check_use for preset recipient keys",
  "jwe.py", "        else:\n            recipient.recipient_key.check_use(\"enc\")\n", "")
V("c06-hmac-verify-raw-value", "C06", "break", "R06.2", "HMAC verify keys the MAC with key.raw_value",
  "rfc7518/jws_algs.py", "        op_key = key.get_op_key(\"verify\")\n        v_sig = hmac.new", "        op_key = key.raw_value\n        v_sig = hmac.new")
V("c06-rsa-decrypt-wrong-op", "C06", "break", "R06.2", "RSA decrypt_cek asks for the 'encrypt' operation key",
  "rfc7518/jwe_algs.py", "        op_key = key.get_op_key(\"decrypt\")", "        op_key = key.get_op_key(\"encrypt\")")
V("c06-check-key-op-skips-private", "C06", "break", "R06.2", "check_key_op no longer requires private material",
  "rfc7517/models.py", "        if reg.private and not self.is_private:\n            raise UnsupportedKeyOperationError(f'Invalid key_op \"{operation}\" for public key')\n", "")
V("c06-check-key-op-ops-only-if-use", "C06", "break", "R06.2", "key_ops only consulted when listed AND use present",
  "rfc7517/models.py", "        if key_ops is not None and operation not in key_ops:", "        if key_ops is not None and self.get(\"use\") and operation not in key_ops:")
V("c06-verify-not-private-flag", "C06", "break", "R06.2", "sign no longer needs private material in the registry",
  "registry.py", '"sign": KeyOperation("compute digital signature or MAC", "sig", True),', '"sign": KeyOperation("compute digital signature or MAC", "sig", False),')
V("c06-ec-sign-no-curve-check", "C06", "break", "R06.3", "ECAlgModel.sign without _check_key",
  "rfc7518/jws_algs.py", "        self._check_key(key)\n        op_key = key.get_op_key(\"sign\")", "        op_key = key.get_op_key(\"sign\")")
V("c06-ec-verify-no-curve-check", "C06", "break", "R06.3", "ECAlgModel.verify without _check_key",
  "rfc7518/jws_algs.py", "        self._check_key(key)\n        key_size = key.curve_key_size", "        key_size = key.curve_key_size")
V("c06-es384-wrong-curve", "C06", "break", "R06.3", "ES384 bound to P-256",
  "rfc7518/jws_algs.py", 'ECAlgModel("ES384", "P-384", 384),', 'ECAlgModel("ES384", "P-256", 384),')
V("c06-unwrap-no-size-check", "C06", "break", "R06.4", "AES unwrap without check_op_key",
  "rfc7518/jwe_algs.py", "    def unwrap_cek(self, ek: bytes, key: bytes) -> bytes:\n        self.check_op_key(key)\n        try:", "    def unwrap_cek(self, ek: bytes, key: bytes) -> bytes:\n        try:")
V("c06-size-gate-ge", "C06", "break", "R06.4", "check_op_key only refuses short keys",
  "rfc7516/models.py", "        if len(op_key) * 8 != self.key_size:", "        if len(op_key) * 8 < self.key_size:")
V("c06-rsa-1024", "C06", "break", "R06.4", "RSA minimum key size lowered to 1024",
  "rfc7518/jwe_algs.py", "    key_size = 2048\n    key_types = [\"RSA\"]", "    key_size = 1024\n    key_types = [\"RSA\"]")
V("c06-dir-size-ge", "C06", "break", "R06.4", "dir accepts longer keys",
  "rfc7518/jwe_algs.py", "        if len(cek) * 8 != size:", "        if len(cek) * 8 < size:")
V("c06-unsafe-warning-pem-only", "C06", "break", "R06.5", "OpenSSH prefixes dropped from the unsafe list",
  "rfc7518/oct_key.py", "    b\"ssh-rsa \",\n    b\"ssh-dss \",\n    b\"ssh-ed25519 \",\n    b\"ecdsa-sha2-\",\n", "")
V("c06-benign-check-use-after-alg", "C06", "benign", "", "check_use moved after get_alg in serialize_compact",
  "jws.py", "    alg: JWSAlgModel = registry.get_alg(protected[\"alg\"])\n    key: Key = guess_key(private_key, obj, True)\n    key.check_use(\"sig\")\n    alg.check_key_type(key)",
  "    key: Key = guess_key(private_key, obj, True)\n    alg: JWSAlgModel = registry.get_alg(protected[\"alg\"])\n    key.check_use(\"sig\")\n    alg.check_key_type(key)")
V("c06-benign-inline-check-key", "C06", "benign", "", "_check_key inlined into ECAlgModel.sign",
  "rfc7518/jws_algs.py", "        self._check_key(key)\n        op_key = key.get_op_key(\"sign\")",
  "        if key.curve_name != self.curve:\n            raise ValueError(\"wrong curve\")\n        op_key = key.get_op_key(\"sign\")")

# ------------------------------------------------------------------------------------------------ C17
V("c17-tail-only", "C17", "break", "R17.2", "completion assumed from unconsumed_tail alone",
  "rfc7518/jwe_zips.py", "            exceeded = decompressor.unconsumed_tail or decompressor.decompress(b\"\", 1)", "            exceeded = decompressor.unconsumed_tail")
V("c17-unbounded", "C17", "break", "R17.1", "inflate without max_length",
  "rfc7518/jwe_zips.py", "        value = decompressor.decompress(s, MAX_SIZE)", "        value = decompressor.decompress(s)")
V("c17-huge-limit", "C17", "break", "R17.1", "MAX_SIZE raised to 250 MiB",
  "rfc7518/jwe_zips.py", "MAX_SIZE = 250 * 1024", "MAX_SIZE = 250 * 1024 * 1024")
V("c17-oneshot", "C17", "break", "R17.1", "one-shot zlib.decompress",
  "rfc7518/jwe_zips.py", "        value = decompressor.decompress(s, MAX_SIZE)", "        value = zlib.decompress(s, -zlib.MAX_WBITS)")
V("c17-slice-result", "C17", "break", "R17.5", "result silently cut to the limit",
  "rfc7518/jwe_zips.py", "        return value\n", "        return value[:MAX_SIZE - 1]\n")
V("c17-decompress-ciphertext", "C17", "break", "R17.4", "decompression applied to unauthenticated ciphertext",
  "rfc7516/message.py", "        obj.plaintext = zip_.decompress(msg)", "        obj.plaintext = zip_.decompress(ciphertext)")
V("c17-zlib-framed-output", "C17", "break", "R17.3", "compress keeps the zlib header and checksum",
  "rfc7518/jwe_zips.py", "        return data[2:-4]", "        return data")
V("c17-benign-eof", "C17", "benign", "", "completion established through eof",
  "rfc7518/jwe_zips.py", "            exceeded = decompressor.unconsumed_tail or decompressor.decompress(b\"\", 1)", "            exceeded = decompressor.unconsumed_tail or not decompressor.eof")
V("c17-benign-rename", "C17", "benign", "", "locals renamed, second pull bound to a name",
  "rfc7518/jwe_zips.py", "            value = decompressor.decompress(s, MAX_SIZE)\n            # all the input may have been consumed while output is still pending,\n            # try to pull one more byte to find out if the limit is exceeded\n            exceeded = decompressor.unconsumed_tail or decompressor.decompress(b\"\", 1)",
  "            out = decompressor.decompress(s, MAX_SIZE)\n            more = decompressor.decompress(decompressor.unconsumed_tail, 1)\n            value = out\n            exceeded = bool(more)")

# ------------------------------------------------------------------------------------------------ C15
V("c14-keyid-error-swallowed", "C14", "break", "R14.20", "JWE JSON key resolution skips a recipient whose kid names no key (seed C14-u)",
  "jwe.py", "        key = guess_key(private_key, recipient)\n",
  "        try:\n            key = guess_key(private_key, recipient)\n        except Exception:\n            continue\n")
V("c14-keyid-error-reraised", "C14", "benign", "R14.20", "JWE JSON key resolution under a handler that re-raises unconditionally",
  "jwe.py", "        key = guess_key(private_key, recipient)\n",
  "        try:\n            key = guess_key(private_key, recipient)\n        except Exception:\n            raise\n")
V("c15-drop-check-header-validate", "C15", "break", "R15.1", "check_header removed from validate_compact",
  "jws.py", "    headers = obj.headers()\n    registry.check_header(headers)\n    key: Key = guess_key(public_key, obj)", "    headers = obj.headers()\n    key: Key = guess_key(public_key, obj)")
V("c15-drop-check-header-sign-member", "C15", "break", "R15.1", "check_header removed from JSON signing",
  "rfc7515/json.py", "    headers = member.headers()\n    registry.check_header(headers)\n    alg = registry.get_alg(headers[\"alg\"])\n    key = find_key(member)\n    key.check_use(\"sig\")\n    alg.check_key_type(key)\n    if member.protected:",
  "    headers = member.headers()\n    alg = registry.get_alg(headers[\"alg\"])\n    key = find_key(member)\n    key.check_use(\"sig\")\n    alg.check_key_type(key)\n    if member.protected:")
V("c15-drop-check-more", "C15", "break", "R15.1", "check_more dropped on JWE consumption",
  "rfc7516/message.py", "        registry.check_header(headers, True)", "        registry.check_header(headers)")
V("c15-check-protected-only", "C15", "break", "R15.1", "JSON verify validates only the protected header",
  "rfc7515/json.py", "    headers = member.headers()\n    registry.check_header(headers)\n    alg = registry.get_alg(headers[\"alg\"])\n    key = find_key(member)\n    key.check_use(\"sig\")\n    alg.check_key_type(key)\n    if \"protected\" in signature:",
  "    headers = member.headers()\n    registry.check_header(member.protected or {})\n    alg = registry.get_alg(headers[\"alg\"])\n    key = find_key(member)\n    key.check_use(\"sig\")\n    alg.check_key_type(key)\n    if \"protected\" in signature:")
V("c15-jwe-no-crit", "C15", "break", "R15.2", "JWE check_header skips the crit check",
  "rfc7516/registry.py", "        check_crit_header(header)\n        validate_registry_header(self.header_registry, header)\n\n        alg =", "        validate_registry_header(self.header_registry, header)\n\n        alg =")
V("c15-jwe-strict-only-without-more", "C15", "break", "R15.2", "JWE strict check skipped when the alg has its own parameters",
  "rfc7516/registry.py", "            if self.strict_check_header:\n                allowed_registry = self.header_registry.copy()\n                allowed_registry.update(alg.more_header_registry)\n                check_supported_header(allowed_registry, header)\n", "            pass\n")
V("c15-7797-b64-without-crit", "C15", "break", "R15.2", "b64 accepted without crit",
  "rfc7797/registry.py", "        if \"b64\" in header:\n            _safe_b64_header(header)\n", "")
V("c15-kid-any-type", "C15", "break", "R15.3", "kid no longer type checked",
  "registry.py", '    "kid": HeaderParameter("Key ID", is_str),', '    "kid": HeaderParameter("Key ID", is_jwk),')
V("c15-enc-optional", "C15", "break", "R15.3", "enc no longer required",
  "registry.py", '    "enc": HeaderParameter("Encryption Algorithm", is_str, True),', '    "enc": HeaderParameter("Encryption Algorithm", is_str),')
V("c15-p2c-str", "C15", "break", "R15.3", "p2c registered as str",
  "rfc7518/jwe_algs.py", '"p2c": HeaderParameter("PBES2 Count", "int", True),', '"p2c": HeaderParameter("PBES2 Count", "str", True),')
V("c15-epk-optional", "C15", "break", "R15.3", "epk not required on consumption",
  "rfc7518/jwe_algs.py", '"epk": HeaderParameter("Ephemeral Public Key", "jwk", True),', '"epk": HeaderParameter("Ephemeral Public Key", "jwk"),')
V("c15-is-list-str-members", "C15", "break", "R15.3", "is_list_str accepts non-str members",
  "registry.py", "    if not all(isinstance(value, str) for value in values):\n        raise ValueError(\"must be a list[str]\")\n", "")
V("c15-swallow-validation-error", "C15", "break", "R15.4", "validator failures swallowed",
  "registry.py", "            except ValueError as error:\n                raise ValueError(f'\"{key}\" in header {error}')", "            except ValueError:\n                pass")
V("c15-required-ignored", "C15", "break", "R15.4", "missing required parameters ignored",
  "registry.py", "        if check_required and reg.required and key not in header:\n            raise ValueError(f'Required \"{key}\" is missing in header')\n", "")
V("c15-crit-any", "C15", "break", "R15.4", "crit check stops at the first present name",
  "registry.py", "            if k not in header:\n                raise ValueError(f'\"{k}\" is a critical header')", "            if k in header:\n                break\n            raise ValueError(f'\"{k}\" is a critical header')")
V("c15-caller-registry-dropped", "C15", "break", "R15.5", "caller header registry not merged (JWS)",
  "rfc7515/registry.py", "        if header_registry is not None:\n            self.header_registry.update(header_registry)\n", "")
V("c15-benign-check-after-alg", "C15", "benign", "", "check_header moved after get_alg in verify_signature",
  "rfc7515/json.py", "    headers = member.headers()\n    registry.check_header(headers)\n    alg = registry.get_alg(headers[\"alg\"])\n    key = find_key(member)\n    key.check_use(\"sig\")\n    alg.check_key_type(key)\n    if \"protected\" in signature:",
  "    headers = member.headers()\n    alg = registry.get_alg(headers[\"alg\"])\n    registry.check_header(headers)\n    key = find_key(member)\n    key.check_use(\"sig\")\n    alg.check_key_type(key)\n    if \"protected\" in signature:")
VARIANTS[-1]["also"] = ["C16"]  # moving get_alg first makes a missing alg a KeyError: benign for C15 only
V("c16-get-alg-before-check-header", "C16", "break", "E2c", "verify_signature reads headers[\"alg\"] before check_header established its presence",
  "rfc7515/json.py", "    registry.check_header(headers)\n    alg = registry.get_alg(headers[\"alg\"])\n    key = find_key(member)\n    key.check_use(\"sig\")\n    alg.check_key_type(key)\n    if \"protected\" in signature:", "    alg = registry.get_alg(headers[\"alg\"])\n    registry.check_header(headers)\n    key = find_key(member)\n    key.check_use(\"sig\")\n    alg.check_key_type(key)\n    if \"protected\" in signature:")
V("c15-benign-supported-loop", "C15", "benign", "", "check_supported_header as a loop",
  "registry.py", "    allowed_keys = set(registry.keys())\n    unsupported_keys = set(header.keys()) - allowed_keys\n    if unsupported_keys:\n        raise ValueError(f'Unsupported {unsupported_keys} in header')",
  "    for name in header:\n        if name not in registry:\n            raise ValueError(f'Unsupported {name} in header')")

# ------------------------------------------------------------------------------------------------ C20
V("c20-hmac-context-on-self", "C20", "break", "R20.", "HMAC sign keeps its MAC context on the shared model",
  "rfc7518/jws_algs.py", "        op_key = key.get_op_key(\"sign\")\n        return hmac.new(op_key, msg, self.hash_alg).digest()",
  "        op_key = key.get_op_key(\"sign\")\n        self._ctx = hmac.new(op_key, msg, self.hash_alg)\n        return self._ctx.digest()")
V("c20-get-by-kid-reorders", "C20", "break", "R20.1", "get_by_kid moves the hit to the front of the shared list",
  "_keys.py", "            if key.kid == kid:\n                return key\n", "            if key.kid == kid:\n                self.keys.remove(key)\n                self.keys.insert(0, key)\n                return key\n")
V("c20-cek-cached-on-model", "C20", "break", "R20.", "generate_cek caches the CEK on the enc model",
  "rfc7516/models.py", "    def generate_cek(self) -> bytes:\n        return secrets.token_bytes(self.cek_size // 8)",
  "    def generate_cek(self) -> bytes:\n        if not hasattr(self, \"_cek\"):\n            self._cek = secrets.token_bytes(self.cek_size // 8)\n        return self._cek")
V("c20-default-registry-strictness", "C20", "break", "R20.1", "serialize_compact relaxes the shared default registry",
  "jws.py", "    if registry is None:\n        registry = construct_registry(algorithms)\n\n    registry.check_header(protected)\n    obj = CompactSignature(protected, to_bytes(payload))",
  "    if registry is None:\n        registry = construct_registry(algorithms)\n    if \"b64\" in protected:\n        registry.strict_check_header = False\n\n    registry.check_header(protected)\n    obj = CompactSignature(protected, to_bytes(payload))")
V("c20-module-level-last-alg", "C20", "break", "R20.", "registry remembers the last algorithm in a module global",
  "rfc7515/registry.py", "        return self.algorithms[name]\n", "        global _last\n        _last = name\n        return self.algorithms[name]\n")
V("c20-rebind-dict-value", "C20", "break", "R20.4", "dict_value rebinds the lazy view (lost update with ensure_kid)",
  "rfc7517/models.py", "        self._dict_value.update(data)\n        return self._dict_value", "        self._dict_value = data\n        return data")
V("c20-key-ops-cache", "C20", "break", "R20.1", "check_key_op memoises the verdict on the key",
  "rfc7517/models.py", "        reg = self.operation_registry[operation]\n        if reg.private and not self.is_private:", "        reg = self.operation_registry[operation]\n        self._dict_value[\"_last_op\"] = operation\n        if reg.private and not self.is_private:")
V("c20-mutable-default", "C20", "break", "R20.5", "mutable default argument",
  "rfc7515/registry.py", "def construct_registry(algorithms: list[str] | None = None) -> JWSRegistry:", "def construct_registry(algorithms: list[str] | None = None, _seen: list = []) -> JWSRegistry:")
V("c20-class-level-cipher", "C20", "break", "R20.", "a padder context is created once at class level",
  "rfc7518/jwe_encs.py", "    iv_size = 128\n    recommended = True\n\n    def __init__(self, key_size: int, hash_type: int):", "    iv_size = 128\n    recommended = True\n    _pad = PKCS7(128).padder()\n\n    def __init__(self, key_size: int, hash_type: int):")
V("c20-benign-local-dict", "C20", "benign", "", "as_dict builds its result in a differently named local",
  "rfc7517/models.py", "        data = self.dict_value.copy()\n        if private is not False:\n            data.update(params)\n            return data",
  "        out = self.dict_value.copy()\n        data = out\n        if private is not False:\n            data.update(params)\n            return data")
V("c20-benign-recipient-header", "C20", "benign", "", "Recipient.add_header always builds a new dict",
  "rfc7516/models.py", "        elif self.header:\n            self.header.update({k: v})\n        else:\n            self.header = {k: v}", "        else:\n            self.header = {**(self.header or {}), k: v}")

# ------------------------------------------------------------------------------------------------ C18
V("c18-iv-zeros", "C18", "break", "R18.", "generate_iv returns zeros",
  "rfc7516/models.py", "        return secrets.token_bytes(self.iv_size // 8)", "        return b\"\\x00\" * (self.iv_size // 8)")
V("c18-iv-fixed-suffix", "C18", "break", "R18.", "IV has a fixed suffix",
  "rfc7516/models.py", "        return secrets.token_bytes(self.iv_size // 8)", "        return secrets.token_bytes(self.iv_size // 8 - 4) + b\"\\x00\\x00\\x00\\x01\"")
V("c18-cek-cached", "C18", "break", "R18.1", "CEK generated once per model",
  "rfc7516/models.py", "    def generate_cek(self) -> bytes:\n        return secrets.token_bytes(self.cek_size // 8)",
  "    def generate_cek(self) -> bytes:\n        cek = getattr(self, \"_cek\", None)\n        if cek is None:\n            cek = self._cek = secrets.token_bytes(self.cek_size // 8)\n        return cek")
V("c18-cek-half-size", "C18", "break", "R18.2", "CEK of half the required size",
  "rfc7516/models.py", "        return secrets.token_bytes(self.cek_size // 8)", "        return secrets.token_bytes(self.cek_size // 16)")
V("c18-gcmkw-iv-zero", "C18", "break", "R18.1", "GCM key-wrap IV constant",
  "rfc7518/jwe_algs.py", "        iv = secrets.token_bytes(iv_size // 8)", "        iv = bytes(iv_size // 8)")
V("c18-gcmkw-iv-64bit", "C18", "break", "R18.2", "GCM key-wrap IV of 64 bits",
  "rfc7518/jwe_algs.py", "        iv_size = 96\n", "        iv_size = 64\n")
V("c18-salt-constant", "C18", "break", "R18.1", "PBES2 salt constant",
  "rfc7518/jwe_algs.py", "            p2s = secrets.token_bytes(16)", "            p2s = b\"joserfc-pbes2-salt\"")
V("c18-salt-short", "C18", "break", "R18.2", "PBES2 salt of 4 octets",
  "rfc7518/jwe_algs.py", "            p2s = secrets.token_bytes(16)", "            p2s = secrets.token_bytes(4)")
V("c18-p2c-one", "C18", "break", "R18.2", "DEFAULT_P2C = 1",
  "rfc7518/jwe_algs.py", "    DEFAULT_P2C = 2048", "    DEFAULT_P2C = 1")
V("c18-module-level-iv", "C18", "break", "R18.1", "IV drawn once at import time",
  "rfc7516/models.py", "KeyType = t.TypeVar(\"KeyType\")\n", "KeyType = t.TypeVar(\"KeyType\")\n_IV = secrets.token_bytes(16)\n")
V("c18-random-module-iv", "C18", "break", "R18.", "IV from the random module",
  "rfc7516/models.py", "        return secrets.token_bytes(self.iv_size // 8)", "        import random\n        return random.randbytes(self.iv_size // 8)")
V("c18-ephemeral-wrong-curve", "C18", "break", "R18.3", "ephemeral key always on P-256",
  "rfc7516/models.py", "recipient_key.generate_key(recipient_key.curve_name, private=True)", "recipient_key.generate_key(\"P-256\", private=True)")
V("c18-ephemeral-on-model", "C18", "break", "R18.3", "ephemeral key cached on the algorithm model",
  "rfc7516/models.py", "            recipient.ephemeral_key = ephemeral_key\n", "            recipient.ephemeral_key = ephemeral_key\n            self._ephemeral = ephemeral_key\n")
V("c18-oct-key-truncated", "C18", "break", "R18.2", "generated oct key one octet short",
  "rfc7518/oct_key.py", "        raw_key = secrets.token_bytes(key_size // 8)", "        raw_key = secrets.token_bytes(key_size // 8 - 1)")
V("c18-rsa-e3", "C18", "break", "R18.2", "RSA public exponent 3",
  "rfc7518/rsa_key.py", "            public_exponent=65537,", "            public_exponent=3,")
V("c18-benign-os-urandom", "C18", "benign", "", "IV from os.urandom",
  "rfc7516/models.py", "        return secrets.token_bytes(self.iv_size // 8)", "        import os\n        return os.urandom(self.iv_size // 8)")
V("c18-benign-iv-local", "C18", "benign", "", "IV bound to a local in perform_encrypt via a size variable",
  "rfc7516/models.py", "        return secrets.token_bytes(self.iv_size // 8)", "        size = self.iv_size // 8\n        value = secrets.token_bytes(size)\n        return value")

# ------------------------------------------------------------------------------------------------ C12
V("c12-dp-public", "C12", "break", "R12.1", "RSA dp registered as public",
  "rfc7518/rsa_key.py", '"dp": KeyParameter("First Factor CRT Exponent", "str", private=True, required=False),', '"dp": KeyParameter("First Factor CRT Exponent", "str", private=False, required=False),')
V("c12-filter-only-d", "C12", "break", "R12.2", "public filter deletes only 'd'",
  "rfc7517/models.py", "            if k in self.value_registry and self.value_registry[k].private:\n                del data[k]", "            if k == \"d\":\n                del data[k]")
V("c12-private-on-public-silent", "C12", "break", "R12.2", "private export of a public key no longer raises",
  "rfc7517/models.py", "        if private and not self.is_private:\n            raise ValueError(\"This key is not a private key.\")\n", "")
V("c12-filter-none-too", "C12", "break", "R12.2", "filter skipped when private is falsy but not False ... inverted test",
  "rfc7517/models.py", "        if private is not False:\n            data.update(params)\n            return data", "        if private is not True and private is not False or private:\n            data.update(params)\n            return data\n        if self.key_type == \"oct\":\n            return data")
V("c12-epk-private", "C12", "break", "R12.4", "epk exported with its private part",
  "rfc7516/models.py", "recipient.add_header(\"epk\", recipient.ephemeral_key.as_dict(private=False))", "recipient.add_header(\"epk\", recipient.ephemeral_key.as_dict())")
V("c12-keyset-drops-flag", "C12", "break", "R12.5", "KeySet.as_dict drops the private flag",
  "_keys.py", "            keys.append(key.as_dict(private=private, **params))", "            keys.append(key.as_dict(**params))")
V("c12-kid-from-raw", "C12", "break", "R12.6", "kid header derived from raw key octets",
  "rfc7516/models.py", "    def set_kid(self, kid: str) -> None:\n        self.add_header(\"kid\", kid)", "    def set_kid(self, kid: str) -> None:\n        key = self.recipient_key\n        self.add_header(\"kid\", kid or key.raw_value.hex())")
V("c12-token-module-as-dict", "C12", "break", "R12.6", "JWS compact serialization embeds the key as jwk header",
  "jws.py", "    key.check_alg(protected[\"alg\"])\n    out = sign_compact(obj, alg, key)", "    key.check_alg(protected[\"alg\"])\n    protected.setdefault(\"jwk\", key.as_dict())\n    out = sign_compact(obj, alg, key)")
V("c12-pem-public-branch-private", "C12", "break", "R12.7", "as_bytes(private=False) dumps the raw (private) key",
  "rfc7517/pem.py", "            return dump_pem_key(key.public_key, encoding, private, password)", "            return dump_pem_key(key.raw_value, encoding, key.is_private, password)")
V("c12-ec-public-export-d", "C12", "break", "R12.3", "EC export_public_key includes d when available",
  "rfc7518/ec_key.py", "        return {\n            \"crv\": cls._curves_dss[numbers.curve.name],\n            \"x\": _coordinate_to_base64(numbers.x, size),\n            \"y\": _coordinate_to_base64(numbers.y, size),\n        }\n\n\nclass ECKey",
  "        rv = {\n            \"crv\": cls._curves_dss[numbers.curve.name],\n            \"x\": _coordinate_to_base64(numbers.x, size),\n            \"y\": _coordinate_to_base64(numbers.y, size),\n        }\n        if hasattr(key, \"private_numbers\"):\n            rv[\"d\"] = _coordinate_to_base64(key.private_numbers().private_value, size)\n        return rv\n\n\nclass ECKey")
V("c12-benign-filter-comprehension-like", "C12", "benign", "", "filter iterates a list copy of the keys",
  "rfc7517/models.py", "        for k in self.dict_value:\n            if k in self.value_registry and self.value_registry[k].private:", "        for k in list(self.dict_value):\n            if k in self.value_registry and self.value_registry[k].private:")
V("c12-benign-okp-export-local", "C12", "benign", "", "OKP export_public_key assigns the dict to a local first",
  "rfc8037/okp_key.py", "        return {\n            \"crv\": get_key_curve(key),\n            \"x\": urlsafe_b64encode(x_bytes).decode(\"utf-8\"),\n        }", "        rv = {\n            \"crv\": get_key_curve(key),\n            \"x\": urlsafe_b64encode(x_bytes).decode(\"utf-8\"),\n        }\n        return rv")

# ------------------------------------------------------------------------------------------------ C16
V("c16-invalidtag-unmapped", "C16", "break", "E1", "InvalidTag no longer mapped in GCM decrypt",
  "rfc7518/jwe_encs.py", "        try:\n            return d.update(ciphertext) + d.finalize()\n        except InvalidTag as error:\n            raise DecodeError(str(error))", "        return d.update(ciphertext) + d.finalize()")
V("c16-invalidunwrap-unmapped", "C16", "break", "E1", "InvalidUnwrap no longer mapped",
  "rfc7518/jwe_algs.py", "        try:\n            cek = aes_key_unwrap(key, ek, default_backend())\n        except InvalidUnwrap:\n            raise DecodeError(\"Unwrap AES key failed\")\n        return cek", "        cek = aes_key_unwrap(key, ek, default_backend())\n        return cek")
V("c16-zlib-error-unmapped", "C16", "break", "E1", "zlib.error escapes again",
  "rfc7518/jwe_zips.py", "        except zlib.error as error:\n            raise DecodeError(f\"Invalid compressed data: {error}\")", "        except KeyError as error:\n            raise DecodeError(f\"Invalid compressed data: {error}\")")
V("c16-recursion-unmapped", "C16", "break", "E1", "RecursionError of json.loads escapes",
  "util.py", "    except RecursionError:\n        # deeply nested JSON from an untrusted source\n        raise ValueError(\"JSON is nested too deep\")", "    except MemoryError:\n        raise ValueError(\"JSON is nested too deep\")")
V("c16-p2c-unbounded", "C16", "break", "E1", "PBES2 count only bounded below",
  "rfc7518/jwe_algs.py", "        if p2c < 1 or p2c > self.MAX_P2C:", "        if p2c < 1:")
V("c16-p2c-bound-too-high", "C16", "break", "E1", "PBES2 upper bound above the backend limit",
  "rfc7518/jwe_algs.py", "    MAX_P2C = 2 ** 31 - 1", "    MAX_P2C = 2 ** 40")
V("c16-header-not-dict", "C16", "break", "E2a", "compact JWS header container check removed",
  "rfc7515/compact.py", "        if not isinstance(protected, dict):\n            raise DecodeError(\"Invalid header\")\n", "")
V("c16-json-member-not-dict", "C16", "break", "E2a", "JSON JWS protected header stored unchecked",
  "rfc7515/json.py", "        protected = json_b64decode(protected_segment)\n        if not isinstance(protected, dict):\n            raise DecodeError(\"Invalid header\")\n        member.protected = protected", "        member.protected = json_b64decode(protected_segment)")
V("c16-crit-unchecked", "C16", "break", "E2b", "crit iterated without a type check",
  "registry.py", "        is_list_str(header[\"crit\"])\n        for k in header[\"crit\"]:", "        for k in header[\"crit\"]:")
V("c16-crit-list-only", "C16", "break", "E2e", "crit checked to be a list but its members are not checked to be strings",
  "registry.py", "        is_list_str(header[\"crit\"])\n        for k in header[\"crit\"]:", "        if not isinstance(header[\"crit\"], list):\n            raise ValueError('\"crit\" in header must be a list[str]')\n        for k in header[\"crit\"]:")
V("c01-signing-input-other-payload", "C01", "break", "R01.7", "RFC7797 compact verification signs over the received payload segment when present, returns obj.payload",
  "rfc7797/compact.py", "    signing_input = obj.segments[\"header\"] + b\".\" + obj.payload\n    sig = urlsafe_b64decode(obj.segments[\"signature\"])\n    if not alg.verify",
  "    payload_segment = obj.segments[\"payload\"] or obj.payload\n    signing_input = obj.segments[\"header\"] + b\".\" + payload_segment\n    sig = urlsafe_b64decode(obj.segments[\"signature\"])\n    if not alg.verify")
V("c17-exceeded-on-compressed-length", "C17", "break", "R17.6", "ExceededSizeError raised from the compressed length before anything is inflated",
  "rfc7518/jwe_zips.py", "        if s.startswith(GZIP_HEAD):\n            decompressor = zlib.decompressobj()",
  "        if len(s) > MAX_SIZE:\n            raise ExceededSizeError(f\"Decompressed string exceeds {MAX_SIZE} bytes\")\n        if s.startswith(GZIP_HEAD):\n            decompressor = zlib.decompressobj()")
V("c17-gate-and", "C17", "break", "R17.2", "limit gate requires both pending input and pending output",
  "rfc7518/jwe_zips.py", "exceeded = decompressor.unconsumed_tail or decompressor.decompress(b\"\", 1)", "exceeded = decompressor.unconsumed_tail and decompressor.decompress(b\"\", 1)")
V("c02-cek-keep-first-len-only", "C02", "break", "R02.7", "CEK set replaced by keep-first with a comparison that only fires on different lengths",
  "rfc7516/message.py", '    cek_set = set()\n    for recipient in obj.recipients:\n        headers = recipient.headers()\n        registry.check_header(headers, True)\n        # Step 6, Determine the Key Management Mode employed by the algorithm\n        # specified by the "alg" (algorithm) Header Parameter.\n        alg = registry.get_alg(headers["alg"])\n        try:\n            cek = decrypt_recipient(alg, enc, recipient, tag)\n            cek_set.add(cek)\n        except (AssertionError, JoseError) as error:\n            if registry.verify_all_recipients:\n                raise error\n\n    if not cek_set:\n        raise DecodeError(\'Invalid recipients\')\n\n    if len(cek_set) > 1:  # pragma: no cover\n        raise DecodeError(\'Multiple "cek" found\')\n\n    cek = cek_set.pop()\n', '    cek: bytes = b""\n    for recipient in obj.recipients:\n        headers = recipient.headers()\n        registry.check_header(headers, True)\n        alg = registry.get_alg(headers["alg"])\n        try:\n            recipient_cek = decrypt_recipient(alg, enc, recipient, tag)\n        except (AssertionError, JoseError) as error:\n            if registry.verify_all_recipients:\n                raise error\n            continue\n\n        if not cek:\n            cek = recipient_cek\n        elif len(recipient_cek) != len(cek) and recipient_cek != cek:\n            raise DecodeError(\'Multiple "cek" found\')\n\n    if not cek:\n        raise DecodeError(\'Invalid recipients\')\n\n')
V("c02-benign-cek-keep-first", "C02", "benign", "", "CEK set replaced by keep-first-and-compare (correct comparison)",
  "rfc7516/message.py", '    cek_set = set()\n    for recipient in obj.recipients:\n        headers = recipient.headers()\n        registry.check_header(headers, True)\n        # Step 6, Determine the Key Management Mode employed by the algorithm\n        # specified by the "alg" (algorithm) Header Parameter.\n        alg = registry.get_alg(headers["alg"])\n        try:\n            cek = decrypt_recipient(alg, enc, recipient, tag)\n            cek_set.add(cek)\n        except (AssertionError, JoseError) as error:\n            if registry.verify_all_recipients:\n                raise error\n\n    if not cek_set:\n        raise DecodeError(\'Invalid recipients\')\n\n    if len(cek_set) > 1:  # pragma: no cover\n        raise DecodeError(\'Multiple "cek" found\')\n\n    cek = cek_set.pop()\n', '    cek: bytes = b""\n    for recipient in obj.recipients:\n        headers = recipient.headers()\n        registry.check_header(headers, True)\n        alg = registry.get_alg(headers["alg"])\n        try:\n            recipient_cek = decrypt_recipient(alg, enc, recipient, tag)\n        except (AssertionError, JoseError) as error:\n            if registry.verify_all_recipients:\n                raise error\n            continue\n\n        if not cek:\n            cek = recipient_cek\n        elif recipient_cek != cek:\n            raise DecodeError(\'Multiple "cek" found\')\n\n    if not cek:\n        raise DecodeError(\'Invalid recipients\')\n\n')
V("c16-gate-untyped", "C16", "break", "E2c", "JWE gate without the str check",
  "rfc7516/registry.py", "        if not isinstance(name, str) or name not in registry:", "        if name not in registry:")
V("c16-json-enc-optional", "C16", "break", "E2c", "JSON JWE extractor no longer requires enc",
  "rfc7516/json.py", "    if \"enc\" not in protected:\n        raise MissingEncryptionError()\n", "")
V("c16-crv-lookup-unguarded", "C16", "break", "E2d", "EC public import indexes the curve table directly",
  "rfc7518/ec_key.py", "    def import_public_key(cls, obj: ECDictKey) -> EllipticCurvePublicKey:\n        if obj[\"crv\"] not in cls._dss_curves:\n            raise ValueError('Invalid crv value: \"{}\"'.format(obj[\"crv\"]))\n", "    def import_public_key(cls, obj: ECDictKey) -> EllipticCurvePublicKey:\n")
V("c16-use-lookup-unguarded", "C16", "break", "E2d", "use/key_ops consistency indexes with an unchecked use",
  "rfc7517/models.py", "            if not isinstance(_use, str) or _use not in cls.use_key_ops_registry:\n                raise ValueError('\"use\" must be one of {}'.format(list(cls.use_key_ops_registry)))\n", "")
V("c16-encrypted-key-none", "C16", "break", "E3", "flattened JSON JWE leaves encrypted_key at None",
  "rfc7516/json.py", "    else:\n        # an absent \"encrypted_key\" member is the empty octet sequence\n        recipient.encrypted_key = b\"\"\n    obj.recipients.append(recipient)\n    return obj", "    obj.recipients.append(recipient)\n    return obj")
V("c16-eddsa-assert", "C16", "break", "E3", "EdDSA verify asserts the key type again",
  "rfc8037/jws_eddsa.py", "        op_key = key.get_op_key(\"verify\")\n        if not isinstance(op_key, (Ed25519PublicKey, Ed448PublicKey)):\n            raise ValueError('Key for \"EdDSA\" not supported, only \"Ed25519\" and \"Ed448\" allowed')", "        op_key = key.get_op_key(\"verify\")\n        assert isinstance(op_key, (Ed25519PublicKey, Ed448PublicKey))")
V("c16-new-assert-on-token-data", "C16", "break", "E3", "a new assert on token data",
  "rfc7516/compact.py", "    parts = value.split(b\".\")\n    if len(parts) != 5:\n        raise ValueError(\"Invalid JSON Web Encryption\")", "    parts = value.split(b\".\")\n    assert len(parts) == 5")
V("c16-7797-no-key-type", "C16", "break", "E4", "RFC 7797 compact verify without check_key_type",
  "rfc7797/compact.py", "    alg = registry.get_alg(headers[\"alg\"])\n    alg.check_key_type(key)\n\n    signing_input = obj.segments", "    alg = registry.get_alg(headers[\"alg\"])\n\n    signing_input = obj.segments")
V("c16-rsa-decrypt-no-key-type", "C16", "break", "E4", "RSA decrypt_cek without check_key_type",
  "rfc7518/jwe_algs.py", "        self.check_key_type(key)\n        op_key = key.get_op_key(\"decrypt\")", "        op_key = key.get_op_key(\"decrypt\")")
V("c16-raise-keyerror", "C16", "break", "E5", "get_by_kid raises KeyError",
  "_keys.py", "        raise InvalidKeyIdError(f'No key for kid: \"{kid}\"')", "        raise KeyError(f'No key for kid: \"{kid}\"')")
V("c16-benign-decode-error-subclass", "C16", "benign", "", "header container check raises ValueError instead of DecodeError",
  "rfc7516/compact.py", "        if not isinstance(protected, dict):\n            raise DecodeError(\"Invalid header\")", "        if not isinstance(protected, dict):\n            raise ValueError(\"Invalid header\")")
V("c16-benign-crv-try", "C16", "benign", "", "OKP curve lookup guarded by a KeyError handler",
  "rfc8037/okp_key.py", "        if obj[\"crv\"] not in PUBLIC_KEYS_MAP:\n            raise ValueError('Invalid crv value: \"{}\"'.format(obj[\"crv\"]))\n        crv_key: t.Type[PublicOKPKey] = PUBLIC_KEYS_MAP[obj[\"crv\"]]",
  "        try:\n            crv_key: t.Type[PublicOKPKey] = PUBLIC_KEYS_MAP[obj[\"crv\"]]\n        except KeyError:\n            raise ValueError('Invalid crv value')")

# ------------------------------------------------------------------------------------------------ C09
V("c09-claims-any-json", "C09", "break", "R09.2", "non-object JSON payloads returned as claims",
  "jwt.py", "    if not isinstance(claims, dict):\n        # the claims set of a JWT is a JSON object\n        raise InvalidPayloadError()\n", "")
V("c09-parse-before-verify", "C09", "break", "R09.1", "claims parsed from the unverified token",
  "jwt.py", "    jws_obj = deserialize_compact(value, key, algorithms, registry)\n    assert jws_obj.payload is not None\n    return jws_obj.headers(), jws_obj.payload",
  "    from .jws import extract_compact\n    raw = extract_compact(value)\n    jws_obj = deserialize_compact(value, key, algorithms, registry)\n    assert jws_obj.payload is not None\n    return jws_obj.headers(), raw.payload")
V("c09-payload-error-unmapped", "C09", "break", "R09.3", "TypeError of json.loads not mapped",
  "jwt.py", "    except (TypeError, ValueError, RecursionError):\n        raise InvalidPayloadError()", "    except (KeyError, RecursionError):\n        raise InvalidPayloadError()")
V("c09-header-mutated", "C09", "break", "R09.4", "typ default written into the caller's header",
  "jwt.py", "    _header = {\"typ\": \"JWT\", **header}", "    header.setdefault(\"typ\", \"JWT\")\n    _header = header")
V("c09-typ-forced", "C09", "break", "R09.5", "typ JWT overrides an explicit typ",
  "jwt.py", "    _header = {\"typ\": \"JWT\", **header}", "    _header = {**header, \"typ\": \"JWT\"}")
V("c09-decode-transport-mismatch", "C09", "break", "R09.6", "decode selects the transport by algorithms, encode by registry",
  "jwt.py", "    if isinstance(registry, JWERegistry):\n        header, payload = _decode_jwe", "    if isinstance(registry, JWERegistry) or _value.count(b\".\") == 4:\n        header, payload = _decode_jwe")
V("c09-timestamp-local-time", "C09", "break", "R09.7", "datetime claims converted with local time",
  "rfc7519/claims.py", "            claims[k] = calendar.timegm(claim.utctimetuple())", "            claims[k] = int(claim.timestamp()) // 60 * 60")
V("c09-benign-setdefault", "C09", "benign", "", "typ default through setdefault on the fresh dict",
  "jwt.py", "    _header = {\"typ\": \"JWT\", **header}", "    _header = {**header}\n    _header.setdefault(\"typ\", \"JWT\")")

# ------------------------------------------------------------------------------------------------ C10
V("c10-exp-plus-leeway", "C10", "break", "R10.1", "exp compared with now + leeway",
  "rfc7519/registry.py", "        if value < (self.now - self.leeway):", "        if value < (self.now + self.leeway):")
V("c10-nbf-ge", "C10", "break", "R10.1", "nbf rejected when equal to now + leeway",
  "rfc7519/registry.py", "            raise InvalidClaimError(\"nbf\")\n        if value > (self.now + self.leeway):", "            raise InvalidClaimError(\"nbf\")\n        if value >= (self.now + self.leeway):")
V("c10-iat-reversed", "C10", "break", "R10.1", "iat comparison reversed",
  "rfc7519/registry.py", "            raise InvalidClaimError(\"iat\")\n        if value > (self.now + self.leeway):", "            raise InvalidClaimError(\"iat\")\n        if value < (self.now + self.leeway):")
V("c10-exp-no-type-guard", "C10", "break", "R10.2", "exp compared without the numeric guard",
  "rfc7519/registry.py", "        if not _validate_numeric_time(value):\n            raise InvalidClaimError(\"exp\")\n", "")
V("c10-exp-wrong-error", "C10", "break", "R10.3", "expired tokens raise InvalidTokenError",
  "rfc7519/registry.py", "            raise ExpiredTokenError()", "            raise InvalidTokenError()")
V("c10-essential-truthy", "C10", "break", "R10.4", "essential claims must be truthy (0 / False rejected)",
  "rfc7519/registry.py", "if claims.get(key) is None}", "if not claims.get(key)}")
V("c10-blank-allowed", "C10", "break", "R10.5", "blank values accepted when allow_blank is unset",
  "rfc7519/registry.py", "            if not allow_blank and value == \"\":", "            if allow_blank is False and value == \"\":")
V("c10-values-any-of-skipped", "C10", "break", "R10.5", "values option ignored when value option given",
  "rfc7519/registry.py", "            if option_values is not None and value not in option_values:", "            if option_value is None and option_values is not None and value not in option_values:")
V("c10-aud-all", "C10", "break", "R10.6", "aud requires all requested audiences",
  "rfc7519/registry.py", "        if not any([v in aud_list for v in option_values]):", "        if not all([v in aud_list for v in option_values]):")
V("c10-validate-pops", "C10", "break", "R10.7", "validate removes validated claims",
  "rfc7519/registry.py", "        for key in claims:\n            value = claims[key]", "        for key in list(claims):\n            value = claims.pop(key)")
V("c10-now-zero", "C10", "break", "R10.8", "default now is 0",
  "rfc7519/registry.py", "            now = int(time.time())", "            now = 0")
V("c10-benign-exp-rearranged", "C10", "benign", "", "exp window written as value + leeway < now",
  "rfc7519/registry.py", "        if value < (self.now - self.leeway):", "        if value + self.leeway < self.now:")
V("c10-benign-nbf-le", "C10", "benign", "", "nbf window written with the accept branch first",
  "rfc7519/registry.py", "            raise InvalidClaimError(\"nbf\")\n        if value > (self.now + self.leeway):\n            raise InvalidTokenError()\n        self.check_value(\"nbf\", value)",
  "            raise InvalidClaimError(\"nbf\")\n        if value - self.leeway <= self.now:\n            self.check_value(\"nbf\", value)\n        else:\n            raise InvalidTokenError()")

# ------------------------------------------------------------------------------------------------ C11
V("c11-ec-minimal-codec", "C11", "break", "R11.1", "EC x exported with the minimal integer codec",
  "rfc7518/ec_key.py", "            \"x\": _coordinate_to_base64(numbers.x, size),\n            \"y\": _coordinate_to_base64(numbers.y, size),\n        }", "            \"x\": _coordinate_to_base64(numbers.x, (numbers.x.bit_length() + 7) // 8),\n            \"y\": _coordinate_to_base64(numbers.y, size),\n        }")
V("c11-ec-floor-size", "C11", "break", "R11.1", "EC coordinate size by floor division (P-521 loses an octet)",
  "rfc7518/ec_key.py", "        numbers = key.public_numbers()\n        size = (numbers.curve.key_size + 7) // 8", "        numbers = key.public_numbers()\n        size = numbers.curve.key_size // 8")
V("c11-rsa-fixed-width", "C11", "break", "R11.2", "RSA e exported with a fixed 4-octet width",
  "rfc7518/rsa_key.py", "        return {\"n\": int_to_base64(numbers.n), \"e\": int_to_base64(numbers.e)}", "        return {\"n\": int_to_base64(numbers.n), \"e\": urlsafe_b64encode(numbers.e.to_bytes(4, \"big\")).decode()}")
V("c11-rsa-private-export-missing-qi", "C11", "break", "R11.3", "RSA private export drops qi",
  "rfc7518/rsa_key.py", "            \"qi\": int_to_base64(numbers.iqmp),\n", "")
V("c11-import-without-validation", "C11", "break", "R11.4", "import_key skips validate_dict_key",
  "rfc7517/models.py", "        if isinstance(value, dict):\n            cls.validate_dict_key(value)\n            raw_key", "        if isinstance(value, dict):\n            raw_key")
V("c11-validate-skips-use-ops", "C11", "break", "R11.4", "use/key_ops consistency no longer validated",
  "rfc7517/models.py", "        cls.binding.validate_dict_key_registry(data, cls.value_registry)\n        cls.binding.validate_dict_key_use_operations(data)", "        cls.binding.validate_dict_key_registry(data, cls.value_registry)")
V("c11-crt-partial-accepted", "C11", "break", "R11.5", "partial CRT parameters accepted",
  "rfc7518/rsa_key.py", "    if any(props_found):\n        raise ValueError(\"RSA key must include all parameters if any are present besides d\")\n", "")
V("c11-kty-optional", "C11", "break", "R11.7", "kty no longer required",
  "registry.py", '    "kty": KeyParameter("Key Type", is_str, required=True),', '    "kty": KeyParameter("Key Type", is_str),')
V("c11-key-ops-choice-missing", "C11", "break", "R11.7", "deriveBits dropped from key_ops choices",
  "registry.py", "            \"deriveKey\",\n            \"deriveBits\",\n        ], multiple=True),", "            \"deriveKey\",\n        ], multiple=True),")
V("c11-dict-view-rederived", "C11", "break", "R11.8", "dict-imported keys re-derive their members",
  "rfc7517/models.py", "            self.validate_dict_key(data)\n            self._dict_value = data\n", "            self.validate_dict_key(data)\n")
V("c11-benign-ec-inline", "C11", "benign", "", "EC coordinate encoder inlined",
  "rfc7518/ec_key.py", "            \"x\": _coordinate_to_base64(numbers.x, size),\n            \"y\": _coordinate_to_base64(numbers.y, size),\n        }", "            \"x\": urlsafe_b64encode(numbers.x.to_bytes(size, \"big\")).decode(\"utf-8\"),\n            \"y\": _coordinate_to_base64(numbers.y, size),\n        }")

# ------------------------------------------------------------------------------------------------ C13
V("c13-whitespace-json", "C13", "break", "R13.2", "thumbprint JSON with default separators",
  "rfc7638/__init__.py", "    json_data = json.dumps(data, ensure_ascii=True, separators=(\",\", \":\"))", "    json_data = json.dumps(data, ensure_ascii=True)")
V("c13-unsorted", "C13", "break", "R13.2", "thumbprint members in registry order",
  "rfc7638/__init__.py", "    sorted_fields = sorted(fields)", "    sorted_fields = list(fields)")
V("c13-padded-output", "C13", "break", "R13.2", "thumbprint output keeps base64 padding",
  "util.py", "    return base64.urlsafe_b64encode(s).rstrip(b\"=\")", "    return base64.urlsafe_b64encode(s)")
V("c13-kid-in-thumbprint", "C13", "break", "R13.1", "optional kid hashed into the thumbprint",
  "rfc7517/models.py", "        fields.append(\"kty\")", "        fields.append(\"kty\")\n        if \"kid\" in self.dict_value:\n            fields.append(\"kid\")")
V("c13-ec-y-optional", "C13", "break", "R13.1", "EC y no longer required (dropped from the thumbprint)",
  "rfc7518/ec_key.py", '"y": KeyParameter("Y Coordinate", "str", private=False, required=True),', '"y": KeyParameter("Y Coordinate", "str", private=False, required=False),')
V("c13-kid-overwritten", "C13", "break", "R13.4", "ensure_kid overwrites an existing kid",
  "rfc7517/models.py", "        if \"kid\" not in self.dict_value:\n            self._dict_value[\"kid\"] = self.thumbprint()", "        self.dict_value\n        self._dict_value[\"kid\"] = self.thumbprint()")
V("c13-keyset-no-kid", "C13", "break", "R13.4", "KeySet.__init__ no longer assigns kids",
  "_keys.py", "        for key in keys:\n            key.ensure_kid()\n        self.keys = keys", "        self.keys = keys")
V("c13-ec-minimal", "C13", "break", "R13.3", "EC d exported minimally (PEM-loaded vs JWK-loaded thumbprints differ via x/y? no: digest input)",
  "rfc7518/ec_key.py", "            \"y\": _coordinate_to_base64(numbers.public_numbers.y, size),", "            \"y\": _coordinate_to_base64(numbers.public_numbers.y, (numbers.public_numbers.y.bit_length() + 7) // 8),")
V("c13-benign-sort-keys", "C13", "benign", "", "lexicographic order through sort_keys",
  "rfc7638/__init__.py", "    json_data = json.dumps(data, ensure_ascii=True, separators=(\",\", \":\"))", "    json_data = json.dumps(data, ensure_ascii=True, sort_keys=True, separators=(\",\", \":\"))")

# ------------------------------------------------------------------------------------------------ C14
V("c14-fallback-first-key", "C14", "break", "R14.1", "unknown kid falls back to the first key",
  "_keys.py", "        raise InvalidKeyIdError(f'No key for kid: \"{kid}\"')", "        return self.keys[0]")
V("c14-single-key-any-kid", "C14", "break", "R14.1", "single-key set ignores a non-matching kid",
  "_keys.py", "        if kid is None and len(self.keys) == 1:", "        if len(self.keys) == 1:")
V("c14-random-despite-kid", "C14", "break", "R14.2", "guess_key picks randomly although the header names a kid",
  "jwk.py", "        if not kid and use_random:", "        if use_random:")
V("c14-no-kid-writeback", "C14", "break", "R14.2", "kid of the randomly chosen key is not recorded",
  "jwk.py", "            obj.set_kid(rv_key.kid)\n", "")
V("c14-consume-random", "C14", "break", "R14.2", "validate_compact picks a random key when no kid",
  "jws.py", "    key: Key = guess_key(public_key, obj)\n    key.check_use(\"sig\")\n    alg: JWSAlgModel = registry.get_alg(headers[\"alg\"])", "    key: Key = guess_key(public_key, obj, True)\n    key.check_use(\"sig\")\n    alg: JWSAlgModel = registry.get_alg(headers[\"alg\"])")
V("c14-eddsa-key-type", "C14", "break", "R14.3", "EdDSA registered for EC keys in the key-set table",
  "jws.py", "    KeySet.algorithm_keys[EdDSA.name] = [EdDSA.key_type]", "    KeySet.algorithm_keys[EdDSA.name] = [\"EC\"]")
V("c14-pick-unfiltered", "C14", "break", "R14.4", "random pick ignores the key type",
  "_keys.py", "            keys = [k for k in self.keys if k.key_type in key_types]", "            keys = list(self.keys)")
V("c14-import-dedupes", "C14", "break", "R14.5", "import_key_set skips keys with a kid seen before",
  "_keys.py", "        for data in value[\"keys\"]:\n            keys.append(cls.registry_cls.import_key(data, parameters=parameters))", "        seen = set()\n        for data in value[\"keys\"]:\n            if data.get(\"kid\") in seen:\n                continue\n            seen.add(data.get(\"kid\"))\n            keys.append(cls.registry_cls.import_key(data, parameters=parameters))")
V("c14-set-kid-wrong-name", "C14", "break", "R14.6", "CompactSignature.set_kid writes key_id",
  "rfc7515/model.py", "        self.protected[\"kid\"] = kid", "        self.protected[\"key_id\"] = kid")
V("c14-skid-not-recorded", "C14", "break", "R14.7", "random sender key without skid header",
  "jwe.py", "                recipient.add_header(\"skid\", skey.kid)\n", "")
V("c14-benign-loop-index", "C14", "benign", "", "get_by_kid single-key shortcut with != form",
  "_keys.py", "        if kid is None and len(self.keys) == 1:\n            return self.keys[0]", "        if kid is None:\n            if len(self.keys) == 1:\n                return self.keys[0]")

# ------------------------------------------------------------------------------------------------ C03
V("c03-emit-other-header", "C03", "break", "R03.1", "compact output re-encodes the header (after the kid was added?) instead of the signed segment",
  "rfc7515/compact.py", "    return signing_input + b\".\" + signature", "    return json_b64encode(obj.protected) + b\".\" + payload_segment + b\".\" + signature")
V("c03-json-protected-reencoded", "C03", "break", "R03.1", "JSON member emits a re-encoded protected header",
  "rfc7515/json.py", "        rv[\"protected\"] = protected_segment.decode(\"utf-8\")", "        rv[\"protected\"] = json_b64encode(dict(member.protected)).decode(\"utf-8\")")
V("c03-kid-after-header", "C03", "break", "R03.2", "rfc7797 compact encodes the header before choosing the key",
  "rfc7797/compact.py", "    key = guess_key(private_key, obj, True)\n    key.check_use(\"sig\")\n\n    header_segment = json_b64encode(protected)", "    header_segment = json_b64encode(protected)\n    key = guess_key(private_key, obj, True)\n    key.check_use(\"sig\")\n")
V("c03-encode-int-floor", "C03", "break", "R03.3", "encode_int uses floor division (P-521 one octet short)",
  "rfc7518/util.py", "    length = ((bits + 7) // 8) * 2", "    length = (bits // 8) * 2")
V("c03-verify-floor", "C03", "break", "R03.3", "EC verify half length by floor division",
  "rfc7518/jws_algs.py", "        length = (key_size + 7) // 8", "        length = key_size // 8")
V("c03-sign-second-return-minimal", "C03", "break", "R03.3", "EC sign has a second return that encodes r and s at their minimal length (seed C03-s)",
  "rfc7518/jws_algs.py", "        return encode_int(r, size) + encode_int(s, size)",
  "        if size % 8:\n            return encode_int(r, size) + encode_int(s, size)\n        return r.to_bytes((r.bit_length() + 7) // 8, \"big\") + s.to_bytes((s.bit_length() + 7) // 8, \"big\")")
V("c03-sign-two-good-returns", "C03", "benign", "R03.3", "EC sign has two returns, both encode_int(.., curve_key_size) halves",
  "rfc7518/jws_algs.py", "        return encode_int(r, size) + encode_int(s, size)",
  "        if size % 8:\n            return encode_int(r, size) + encode_int(s, size)\n        return encode_int(r, size) + encode_int(s, size)")
V("c03-detach-wrong-index", "C03", "break", "R03.4", "detach clears the signature segment",
  "rfc7515/compact.py", "    parts[1] = \"\"", "    parts[2] = \"\"")
V("c03-detach-json-in-place", "C03", "break", "R03.4", "detach_json_content alters its argument",
  "rfc7515/json.py", "    rv = copy.deepcopy(value)  # don't alter original value", "    rv = value")
V("c03-regex-allows-dot", "C03", "break", "R03.5", "url-safe pattern admits '.'",
  "rfc7797/compact.py", "_re_urlsafe = re.compile(\"^[a-zA-Z0-9-_~]+$\")", "_re_urlsafe = re.compile(\"^[a-zA-Z0-9-_~.]+$\")")
V("c03-regex-unanchored", "C03", "break", "R03.5", "url-safe pattern not anchored at the end",
  "rfc7797/compact.py", "_re_urlsafe = re.compile(\"^[a-zA-Z0-9-_~]+$\")", "_re_urlsafe = re.compile(\"^[a-zA-Z0-9-_~]+\")")
V("c03-benign-join-output", "C03", "benign", "", "compact output built with join",
  "rfc7515/compact.py", "    return signing_input + b\".\" + signature", "    return b\".\".join([signing_input, signature])")

# ------------------------------------------------------------------------------------------------ C04
V("c04-direct-multi-allowed", "C04", "break", "R04.1", "direct mode with several recipients no longer refused",
  "rfc7516/message.py", "            if len(recipients) > 1:\n                raise ConflictAlgorithmError(f\"Algorithm {alg.name} SHOULD have 1 recipient only\")\n", "")
V("c04-1pu-check-enc-dropped", "C04", "break", "R04.1", "ECDH-1PU+KW accepts GCM content encryption",
  "drafts/jwe_ecdh_1pu.py", "            tag: bytes) -> bytes:\n        self._check_enc(enc)\n        return self.__encrypt_agreed_upon_key(enc, recipient, tag)", "            tag: bytes) -> bytes:\n        return self.__encrypt_agreed_upon_key(enc, recipient, tag)")
V("c04-zip-condition-mismatch", "C04", "break", "R04.2", "decompression keyed on the merged headers, compression on protected",
  "rfc7516/message.py", "    msg = enc.decrypt(ciphertext, tag, cek, iv, aad)\n    if \"zip\" in obj.protected:", "    msg = enc.decrypt(ciphertext, tag, cek, iv, aad)\n    if \"zip\" in obj.protected or (getattr(obj, \"unprotected\", None) or {}).get(\"zip\"):")
V("c04-writer-member-renamed", "C04", "break", "R04.3", "general JSON writes 'encryptedKey'",
  "rfc7516/json.py", "            item[\"encrypted_key\"] = to_str(urlsafe_b64encode(recipient.encrypted_key))", "            item[\"encryptedKey\"] = to_str(urlsafe_b64encode(recipient.encrypted_key))")
V("c04-compact-order", "C04", "break", "R04.3", "compact writer swaps iv and encrypted key",
  "rfc7516/compact.py", "        urlsafe_b64encode(encrypted_key),\n        obj.base64_segments[\"iv\"],", "        obj.base64_segments[\"iv\"],\n        urlsafe_b64encode(encrypted_key),")
V("c04-merge-order", "C04", "break", "R04.4", "protected header overrides per-recipient header",
  "rfc7516/models.py", "        rv: Header = {}\n        rv.update(self.__parent.protected)\n        if isinstance(self.__parent, BaseJSONEncryption) and self.__parent.unprotected:\n            rv.update(self.__parent.unprotected)\n        if self.header:\n            rv.update(self.header)\n        return rv",
  "        rv: Header = {}\n        if self.header:\n            rv.update(self.header)\n        if isinstance(self.__parent, BaseJSONEncryption) and self.__parent.unprotected:\n            rv.update(self.__parent.unprotected)\n        rv.update(self.__parent.protected)\n        return rv")
V("c04-benign-len-ge-2", "C04", "benign", "", "multi-recipient guard as >= 2",
  "rfc7516/message.py", "            if len(recipients) > 1:\n                raise ConflictAlgorithmError", "            if len(recipients) >= 2:\n                raise ConflictAlgorithmError")

# ------------------------------------------------------------------------------------------------ C07
V("c07-ps-salt-20", "C07", "break", "R07.1", "PSS salt length fixed to 20",
  "rfc7518/jws_algs.py", "salt_length=self.hash_alg.digest_size)", "salt_length=20)")
V("c07-ps-mgf-sha1", "C07", "break", "R07.1", "PSS MGF1 always SHA-1",
  "rfc7518/jws_algs.py", "padding.PSS(mgf=padding.MGF1(self.hash_alg())", "padding.PSS(mgf=padding.MGF1(hashes.SHA1())")
V("c07-es384-sha256", "C07", "break", "R07.1", "ES384 hashes with SHA-256",
  "rfc7518/jws_algs.py", 'ECAlgModel("ES384", "P-384", 384),', 'ECAlgModel("ES384", "P-384", 256),')
V("c07-hmac-hashed-key", "C07", "break", "R07.1", "HMAC keyed with a digest of the key",
  "rfc7518/jws_algs.py", "        op_key = key.get_op_key(\"sign\")\n        return hmac.new(op_key, msg, self.hash_alg).digest()", "        op_key = key.get_op_key(\"sign\")\n        return hmac.new(hashlib.sha256(op_key).digest(), msg, self.hash_alg).digest()")
V("c07-payload-std-b64", "C07", "break", "R07.2", "compact signing input with an unencoded payload",
  "rfc7515/compact.py", "    payload_segment = urlsafe_b64encode(obj.payload)\n    signing_input", "    payload_segment = obj.payload\n    signing_input")
V("c07-json-spaces", "C07", "break", "R07.5", "header JSON with default separators",
  "util.py", "        text = json.dumps(text, ensure_ascii=True, separators=(\",\", \":\"))", "        text = json.dumps(text, ensure_ascii=True)")
V("c07-okp-public-with-kty", "C07", "break", "R07.6", "OKP public export adds an extra member",
  "rfc8037/okp_key.py", "            \"crv\": get_key_curve(key),\n            \"x\": urlsafe_b64encode(x_bytes).decode(\"utf-8\"),\n        }", "            \"crv\": get_key_curve(key),\n            \"x\": urlsafe_b64encode(x_bytes).decode(\"utf-8\"),\n            \"y\": \"\",\n        }")

# ------------------------------------------------------------------------------------------------ C08
V("c08-oaep-sha256-default", "C08", "break", "R08.1", "RSA-OAEP uses SHA-256",
  "rfc7518/jwe_algs.py", "        padding.OAEP(padding.MGF1(hashes.SHA1()), hashes.SHA1(), None),\n        True,", "        padding.OAEP(padding.MGF1(hashes.SHA256()), hashes.SHA256(), None),\n        True,")
V("c08-a192cbc-hash", "C08", "break", "R08.1", "A192CBC-HS384 built with SHA-256",
  "rfc7518/jwe_encs.py", "    CBCHS2EncModel(192, 384),  # A192CBC-HS384", "    CBCHS2EncModel(192, 256),  # A192CBC-HS384")
V("c08-pbes2-wrong-wrap", "C08", "break", "R08.1", "PBES2-HS384 wraps with A128KW",
  "rfc7518/jwe_algs.py", "    PBES2HSAlgModel(384, A192KW),  # PBES2-HS384+A192KW", "    PBES2HSAlgModel(384, A128KW),  # PBES2-HS384+A192KW")
V("c08-al-in-octets", "C08", "break", "R08.3", "AL counts octets instead of bits",
  "rfc7518/jwe_encs.py", "        al = encode_int(len(aad) * 8, 64)", "        al = encode_int(len(aad), 64)")
V("c08-mac-order", "C08", "break", "R08.3", "MAC input order iv || aad",
  "rfc7518/jwe_encs.py", "        msg = aad + iv + ciphertext + al", "        msg = iv + aad + ciphertext + al")
V("c08-key-halves-swapped", "C08", "break", "R08.3", "MAC key taken from the second half (encrypt side)",
  "rfc7518/jwe_encs.py", "        hkey = cek[:self.key_len]\n        ekey = cek[self.key_len:]", "        ekey = cek[:self.key_len]\n        hkey = cek[self.key_len:]")
V("c08-apu-apv-swapped", "C08", "break", "R08.4", "PartyVInfo before PartyUInfo",
  "rfc7518/derive_key.py", "    fixed_info = alg_id + apu_info + apv_info + pub_info", "    fixed_info = alg_id + apv_info + apu_info + pub_info")
V("c08-apu-not-decoded", "C08", "break", "R08.4", "apu used without base64url decoding",
  "rfc7518/derive_key.py", "    apu_info = u32be_len_input(header.get(\"apu\"), True)", "    apu_info = u32be_len_input(header.get(\"apu\"))")
V("c08-algid-always-enc", "C08", "break", "R08.4", "AlgorithmID is enc also in key-wrapping mode",
  "rfc7518/derive_key.py", "        alg_id = u32be_len_input(header[\"alg\"])\n        bit_size = key_size", "        alg_id = u32be_len_input(header[\"enc\"])\n        bit_size = key_size")
V("c08-1pu-z-order", "C08", "break", "R08.4", "ECDH-1PU Z = Zs || Ze on the encrypt side",
  "drafts/jwe_ecdh_1pu.py", "        ephemeral_shared_key = ephemeral_key.exchange_derive_key(recipient_key)\n        shared_key = ephemeral_shared_key + sender_shared_key", "        ephemeral_shared_key = ephemeral_key.exchange_derive_key(recipient_key)\n        shared_key = sender_shared_key + ephemeral_shared_key")
V("c08-pbes2-salt-order", "C08", "break", "R08.5", "PBES2 salt = p2s || 0x00 || alg",
  "rfc7518/jwe_algs.py", "        salt = to_bytes(self.name) + b\"\\x00\" + p2s", "        salt = p2s + b\"\\x00\" + to_bytes(self.name)")
V("c08-aad-header-incomplete", "C08", "break", "R08.2", "AAD computed before key management adds epk / iv / tag",
  "rfc7516/message.py", "    enc = registry.get_enc(obj.protected[\"enc\"])\n    cek, delayed_tasks = pre_encrypt_recipients(enc, obj.recipients, registry)\n", "    enc = registry.get_enc(obj.protected[\"enc\"])\n    early = json_b64encode(obj.protected)\n    cek, delayed_tasks = pre_encrypt_recipients(enc, obj.recipients, registry)\n")
V("c08-gcmkw-tag-not-published", "C08", "break", "R08.8", "AES-GCM-KW tag header holds the iv",
  "rfc7518/jwe_algs.py", "        recipient.add_header(\"tag\", urlsafe_b64encode(enc.tag).decode(\"ascii\"))", "        recipient.add_header(\"tag\", urlsafe_b64encode(iv).decode(\"ascii\"))")
V("c08-benign-struct-to-bytes", "C08", "benign", "", "length prefix through int.to_bytes",
  "rfc7518/derive_key.py", "    return struct.pack(\">I\", len(sb)) + sb", "    return len(sb).to_bytes(4, \"big\") + sb")

# ------------------------------------------------------------------------------------------------ C19
V("c19-lenient-decode", "C19", "break", "R19.2", "b64decode without validate=True",
  "util.py", "    return base64.b64decode(s, b\"-_\", validate=True)", "    return base64.b64decode(s, b\"-_\")")
V("c19-plus-slash-accepted", "C19", "break", "R19.2", "'+' and '/' no longer refused",
  "util.py", "    if b\"+\" in s or b\"/\" in s:\n        raise binascii.Error\n", "")
V("c19-padded-encode", "C19", "break", "R19.3", "encoder keeps padding",
  "util.py", "    return base64.urlsafe_b64encode(s).rstrip(b\"=\")", "    return base64.urlsafe_b64encode(s)")
V("c19-negative-int", "C19", "break", "R19.4", "negative integers no longer refused",
  "util.py", "    if num < 0:\n        raise ValueError(\"Must be a positive integer\")\n", "")
V("c19-int-little-endian", "C19", "break", "R19.4", "integer codec little-endian",
  "util.py", "    s = num.to_bytes((num.bit_length() + 7) // 8, \"big\", signed=False)", "    s = num.to_bytes((num.bit_length() + 7) // 8, \"little\", signed=False)")
V("c19-base64-elsewhere", "C19", "break", "R19.1", "okp key import decodes with base64 directly",
  "rfc8037/okp_key.py", "        x_bytes = urlsafe_b64decode(to_bytes(obj[\"x\"]))\n        return crv_key.from_public_bytes(x_bytes)", "        import base64\n        x_bytes = base64.urlsafe_b64decode(to_bytes(obj[\"x\"]) + b\"==\")\n        return crv_key.from_public_bytes(x_bytes)")
V("c19-benign-from-bytes", "C19", "benign", "", "base64_to_int through int.from_bytes",
  "util.py", "    buf = struct.unpack(\"%sB\" % len(data), data)\n    return int(\"\".join([\"%02x\" % byte for byte in buf]), 16)", "    return int.from_bytes(data, \"big\")")
V("c15-allowed-registry-class-cache", "C15", "break", "R15.2", "merged registry memoised on the class by alg name (shared between registries with different caller tables)",
  "rfc7516/registry.py", "                allowed_registry = self.header_registry.copy()\n                allowed_registry.update(alg.more_header_registry)\n",
  "                allowed_registry = JWERegistry.__dict__.setdefault(\"_c\", {}).get(alg.name) if False else getattr(JWERegistry, \"_cache\", {}).get(alg.name)\n                if allowed_registry is None:\n                    allowed_registry = self.header_registry.copy()\n                    allowed_registry.update(alg.more_header_registry)\n                    JWERegistry._cache = {**getattr(JWERegistry, \"_cache\", {}), alg.name: allowed_registry}\n")
V("c15-benign-allowed-registry-literal-union", "C15", "benign", "", "merged registry built as a dict literal union",
  "rfc7516/registry.py", "                allowed_registry = self.header_registry.copy()\n                allowed_registry.update(alg.more_header_registry)\n",
  "                allowed_registry = {**self.header_registry, **alg.more_header_registry}\n")
V("c15-benign-allowed-registry-dict-ctor", "C15", "benign", "", "merged registry copy made with dict()",
  "rfc7516/registry.py", "                allowed_registry = self.header_registry.copy()\n", "                allowed_registry = dict(self.header_registry)\n")
V2("c18-shared-default-recipient-header", "C18", "break", "R18.5", "add_recipient defaults to one shared dict and add_header keeps filling it (PBES2 salt re-used by later messages)",
   [("rfc7516/models.py", "        elif self.header:\n            self.header.update({k: v})", "        elif self.header is not None:\n            self.header.update({k: v})"),
    ("rfc7516/models.py", "    def add_recipient(self, header: Header | None = None, key: Key | None = None) -> None:\n        recipient = Recipient(self, header, key)",
     "    def add_recipient(self, header: Header = {}, key: Key | None = None) -> None:\n        recipient = Recipient(self, header, key)")])
V("c18-benign-recipient-header-copy", "C18", "benign", "", "Recipient copies the caller's header dict",
  "rfc7516/models.py", "        self.header = header\n        self.recipient_key = recipient_key", "        self.header = dict(header) if header else None\n        self.recipient_key = recipient_key")
V("c10-aud-any-sequence", "C10", "break", "R10.6", "a str aud is no longer wrapped (Sequence test): substring match",
  "rfc7519/registry.py", "        if isinstance(value, list):\n            aud_list = value", "        if isinstance(value, (list, str)):\n            aud_list = value")
V("c10-benign-aud-list-or-tuple", "C10", "benign", "", "aud given as list or tuple is used as is",
  "rfc7519/registry.py", "        if isinstance(value, list):\n            aud_list = value", "        if isinstance(value, (list, tuple)):\n            aud_list = value")
V("c11-keyops-overlap-only", "C11", "break", "R11.9", "use/key_ops consistency weakened from subset to overlap",
  "rfc7517/models.py", "            for op in dict_key[\"key_ops\"]:\n                if op not in operations:\n                    raise ValueError('\"use\" and \"key_ops\" does not match')",
  "            if set(operations).isdisjoint(dict_key[\"key_ops\"]):\n                raise ValueError('\"use\" and \"key_ops\" does not match')")
V("c11-benign-keyops-subset-set", "C11", "benign", "", "use/key_ops consistency as a set difference",
  "rfc7517/models.py", "            for op in dict_key[\"key_ops\"]:\n                if op not in operations:\n                    raise ValueError('\"use\" and \"key_ops\" does not match')",
  "            if set(dict_key[\"key_ops\"]) - set(operations):\n                raise ValueError('\"use\" and \"key_ops\" does not match')")
V("c04-aad-predicate-asymmetric", "C04", "break", "R04.5", "encrypt appends the AAD when it is not None, decrypt when it is truthy",
  "rfc7516/message.py", "    if isinstance(obj, BaseJSONEncryption) and obj.aad:\n        aad = aad + b\".\" + urlsafe_b64encode(obj.aad)\n    obj.base64_segments[\"aad\"] = aad",
  "    if isinstance(obj, BaseJSONEncryption) and obj.aad is not None:\n        aad = aad + b\".\" + urlsafe_b64encode(obj.aad)\n    obj.base64_segments[\"aad\"] = aad")
V2("c04-benign-aad-predicate-all-not-none", "C04", "benign", "", "all three sites test `obj.aad is not None`",
   [("rfc7516/message.py", "    if isinstance(obj, BaseJSONEncryption) and obj.aad:\n        aad = aad + b\".\" + urlsafe_b64encode(obj.aad)\n    obj.base64_segments[\"aad\"] = aad",
     "    if isinstance(obj, BaseJSONEncryption) and obj.aad is not None:\n        aad = aad + b\".\" + urlsafe_b64encode(obj.aad)\n    obj.base64_segments[\"aad\"] = aad"),
    ("rfc7516/message.py", "    if isinstance(obj, BaseJSONEncryption) and obj.aad:\n        aad = aad + b\".\" + urlsafe_b64encode(obj.aad)\n\n    msg = enc.decrypt",
     "    if isinstance(obj, BaseJSONEncryption) and obj.aad is not None:\n        aad = aad + b\".\" + urlsafe_b64encode(obj.aad)\n\n    msg = enc.decrypt"),
    ("rfc7516/json.py", "    if obj.aad:\n        data[\"aad\"]", "    if obj.aad is not None:\n        data[\"aad\"]")])
V("c03-message-copies-header", "C03", "break", "R03.2", "CompactSignature keeps a copy of the header: the kid set by key selection is not in the dict rfc7797 encodes",
  "rfc7515/model.py", "    def __init__(self, protected: Header, payload: bytes):\n        self.protected = protected", "    def __init__(self, protected: Header, payload: bytes):\n        self.protected = dict(protected)")
V("c14-7797-header-encoded-before-key", "C14", "break", "R14.8", "rfc7797 serialize_compact encodes the header before guess_key records the kid",
  "rfc7797/compact.py", "    obj = CompactSignature(protected, to_bytes(payload))\n    alg = registry.get_alg(protected[\"alg\"])\n    key = guess_key(private_key, obj, True)\n    key.check_use(\"sig\")\n\n    header_segment = json_b64encode(protected)",
  "    header_segment = json_b64encode(protected)\n    obj = CompactSignature(protected, to_bytes(payload))\n    alg = registry.get_alg(protected[\"alg\"])\n    key = guess_key(private_key, obj, True)\n    key.check_use(\"sig\")\n")
V("c04-unprotected-written-when-absent", "C04", "break", "R04.3", "JSON writer emits unprotected only when it is empty",
  "rfc7516/json.py", "    if obj.unprotected:\n        data[\"unprotected\"] = obj.unprotected", "    if not obj.unprotected:\n        data[\"unprotected\"] = obj.unprotected")
V("c03-header-written-when-absent", "C03", "break", "R03.6", "JWS JSON writer emits the unprotected header only when it is empty",
  "rfc7515/json.py", "    if member.header:\n        rv[\"header\"] = member.header", "    if not member.header:\n        rv[\"header\"] = member.header")
V("c02-gcm-invalid-tag-swallowed", "C02", "break", "R02.4", "GCM decrypt swallows InvalidTag and returns None",
  "rfc7518/jwe_encs.py", "        except InvalidTag as error:\n            raise DecodeError(str(error))\n\n\nJWE_ENC_MODELS", "        except InvalidTag as error:\n            pass\n\n\nJWE_ENC_MODELS")
V("c16-1pu-sender-key-none-unguarded", "C16", "break", "E6", "ECDH-1PU decryption uses recipient.sender_key without the None guard",
  "drafts/jwe_ecdh_1pu.py", "        if sender_key is None:\n            raise ValueError('Missing \"sender_key\" for ECDH-1PU')\n        assert recipient_key is not None\n\n        self.check_key_type(recipient_key)\n        ephemeral_key = recipient_key.import_key",
  "        assert recipient_key is not None\n\n        self.check_key_type(recipient_key)\n        ephemeral_key = recipient_key.import_key")
V("c11-pem-explicit-encoding-refused", "C11", "break", "R11.10", "explicit encoding='PEM' no longer selects PEM",
  "rfc7517/pem.py", "    if encoding is None or encoding == \"PEM\":", "    if encoding is None:")
V("c11-der-yields-pem", "C11", "break", "R11.10", "encoding='DER' selects the PEM encoder",
  "rfc7517/pem.py", "    elif encoding == \"DER\":\n        encoding_enum = Encoding.DER", "    elif encoding == \"DER\":\n        encoding_enum = Encoding.PEM")
V("c11-benign-encoding-dispatch-reordered", "C11", "benign", "", "DER tested first",
  "rfc7517/pem.py", "    if encoding is None or encoding == \"PEM\":\n        encoding_enum = Encoding.PEM\n    elif encoding == \"DER\":\n        encoding_enum = Encoding.DER\n    else:",
  "    if encoding == \"DER\":\n        encoding_enum = Encoding.DER\n    elif encoding is None or encoding == \"PEM\":\n        encoding_enum = Encoding.PEM\n    else:")
V("c11-extra-member-in-dict-view", "C11", "break", "R11.11", "a key built from a JWK keeps an extra member",
  "rfc7517/models.py", "                data = {**original_value, \"kty\": self.key_type}", "                data = {**original_value, \"ktyx\": self.key_type}")
V("c08-p2c-one-refused", "C08", "break", "R08.5", "an iteration count of 1 is refused",
  "rfc7518/jwe_algs.py", "        if p2c < 1 or p2c > self.MAX_P2C:", "        if p2c <= 1 or p2c > self.MAX_P2C:")
V("c08-benign-p2c-mirrored", "C08", "benign", "", "lower bound written with the constant on the left",
  "rfc7518/jwe_algs.py", "        if p2c < 1 or p2c > self.MAX_P2C:", "        if 1 > p2c or p2c > self.MAX_P2C:")
V("c16-use-not-str-checked", "C16", "break", "E2f", "use / key_ops consistency hashes `use` without the str check (use given as a list -> TypeError)",
  "rfc7517/models.py", "            if not isinstance(_use, str) or _use not in cls.use_key_ops_registry:", "            if _use not in cls.use_key_ops_registry:")
# ------------------------------------------------------------------------------------------------ rules added after the third seed batch
V("c06-unsafe-prefix-fast-path", "C06", "break", "R06.5", "first-byte pre-filter in front of the PEM/SSH prefix test (ecdsa-sha2- keys skip the warning)",
  "rfc7518/oct_key.py", "        if value.startswith(POSSIBLE_UNSAFE_KEYS):", "        if value[:1] in (b\"-\", b\"s\") and value.startswith(POSSIBLE_UNSAFE_KEYS):")
V("c18-ephemeral-key-from-dict", "C18", "break", "R18.6", "ephemeral key taken from a per-message dict instead of generated",
  "rfc7516/message.py", "    if isinstance(alg, JWEKeyAgreement):\n        alg.prepare_ephemeral_key(recipient)\n    return alg",
  "    if isinstance(alg, JWEKeyAgreement):\n        if recipient.ephemeral_key is None and registry.__dict__.get(\"_eph\"):\n            recipient.ephemeral_key = registry.__dict__[\"_eph\"]\n        alg.prepare_ephemeral_key(recipient)\n    return alg")
V("c20-shallow-copy-inner-list-mutated", "C20", "break", "R20.1", "as_dict edits the key_ops list shared with the key through a shallow copy",
  "rfc7517/models.py", "        data.update(params)\n        return data\n\n    @classmethod\n    def validate_dict_key_registry" if False else "                del data[k]\n\n        data.update(params)\n        return data",
  "                del data[k]\n\n        key_ops = data.get(\"key_ops\")\n        if isinstance(key_ops, list):\n            key_ops.remove(\"sign\")\n        data.update(params)\n        return data")
V("c12-as-der-drops-private", "C12", "break", "R12.9", "as_der no longer forwards its private argument",
  "rfc7517/models.py", "        return self.as_bytes(encoding=\"DER\", private=private, password=password)", "        return self.as_bytes(encoding=\"DER\", password=password)")
V("c11-password-dropped-for-private", "C11", "break", "R11.12", "explicit private=True export ignores the password",
  "rfc7517/pem.py", "            return dump_pem_key(key.private_key, encoding, private, password)", "            return dump_pem_key(key.private_key, encoding, private)")
V("c14-single-key-shortcut-without-kid", "C14", "break", "R14.2", "guess_key returns the only key of a set directly (no kid lookup, no kid write-back)",
  "jwk.py", "        if not kid and use_random:\n            # choose one key by random", "        if not kid and len(_norm_key.keys) == 1:\n            rv_key = _norm_key.keys[0]\n        elif not kid and use_random:\n            # choose one key by random")
V("c09-single-key-shortcut-without-kid", "C09", "break", "R09.8", "guess_key returns the only key of a set directly: its kid never reaches the JWT header",
  "jwk.py", "        if not kid and use_random:\n            # choose one key by random", "        if not kid and len(_norm_key.keys) == 1:\n            rv_key = _norm_key.keys[0]\n        elif not kid and use_random:\n            # choose one key by random")
V("c03-protected-predicate-asymmetric", "C03", "break", "R03.6", "signing input uses `protected is not None`, the output `if protected`",
  "rfc7515/json.py", "    if member.protected:\n        protected_segment = json_b64encode(member.protected)\n    else:\n        protected_segment = b\"\"",
  "    protected_segment = b\"\"\n    if member.protected is not None:\n        protected_segment = json_b64encode(member.protected)")
V("c02-direct-agreement-skips-empty-key-check", "C02", "break", "R02.6", "key agreement handled before the direct-mode empty-encrypted-key check",
  "rfc7516/message.py", "    if alg.direct_mode:\n        # 10.  When Direct Key Agreement or Direct Encryption are employed,", "    if alg.direct_mode and not isinstance(alg, JWEKeyAgreement):\n        # 10.  When Direct Key Agreement or Direct Encryption are employed,")
V("c02-aad-general-json-only", "C02", "break", "R02.2", "the JSON aad member is authenticated for the general serialization only",
  "rfc7516/message.py", "    aad = obj.base64_segments[\"aad\"]\n    if isinstance(obj, BaseJSONEncryption) and obj.aad:", "    aad = obj.base64_segments[\"aad\"]\n    if isinstance(obj, GeneralJSONEncryption) and obj.aad:")
V("c01-hmac-state-cached-by-kid", "C01", "break", "R01.6", "HMAC verify uses a keyed state cached on the algorithm object under the kid",
  "rfc7518/jws_algs.py", "        op_key = key.get_op_key(\"verify\")\n        v_sig = hmac.new(op_key, msg, self.hash_alg).digest()",
  "        op_key = key.get_op_key(\"verify\")\n        st = self.__dict__.setdefault(\"_keyed\", {})\n        if key.kid not in st:\n            st[key.kid] = hmac.new(op_key, None, self.hash_alg)\n        h = st[key.kid].copy()\n        h.update(msg)\n        v_sig = h.digest()")
V("c04-def-limit-off-by-one", "C04", "break", "R04.6", "a plaintext of exactly the limit is reported as exceeding it",
  "rfc7518/jwe_zips.py", "exceeded = decompressor.unconsumed_tail or decompressor.decompress(b\"\", 1)", "exceeded = decompressor.unconsumed_tail or len(value) >= MAX_SIZE")
V("c05-zip-truthiness", "C05", "break", "R05.8", "an empty zip value is not looked up (and so not refused)",
  "rfc7516/message.py", "    if \"zip\" in obj.protected:\n        zip_ = registry.get_zip(obj.protected[\"zip\"])\n        plaintext = zip_.compress(obj.plaintext)",
  "    if obj.protected.get(\"zip\"):\n        zip_ = registry.get_zip(obj.protected[\"zip\"])\n        plaintext = zip_.compress(obj.plaintext)")
V("c07-dot-stays-attached", "C07", "break", "R07.7", "b64=false payloads containing '.' stay attached in the compact form",
  "rfc7797/compact.py", "_re_urlsafe = re.compile(\"^[a-zA-Z0-9-_~]+$\")", "_re_urlsafe = re.compile(\"^[a-zA-Z0-9\\\\-._~]+$\")")
V("c13-as-dict-returns-internal", "C13", "break", "R13.5", "non-public as_dict returns (and updates) the key's own dict",
  "rfc7517/models.py", "        data = self.dict_value.copy()\n        if private is not False:", "        data = self.dict_value\n        if private is not False:")
V("c03-roundtrip-payload-from-wrong-segment", "C03", "break", "R03.7", "extract_compact decodes the payload from the signature segment",
  "rfc7515/compact.py", "        payload = urlsafe_b64decode(payload_segment)", "        payload = urlsafe_b64decode(signature_segment)")
V("c03-roundtrip-signature-over-other-input", "C03", "break", "R03.7", "verify_compact checks the signature over payload '.' header",
  "rfc7515/compact.py", "    signing_input = obj.segments[\"header\"] + b\".\" + obj.segments[\"payload\"]\n    sig = urlsafe_b64decode", "    signing_input = obj.segments[\"payload\"] + b\".\" + obj.segments[\"header\"]\n    sig = urlsafe_b64decode")
V("c03-benign-roundtrip-join", "C03", "benign", "", "sign_compact joins the three segments with b'.'.join",
  "rfc7515/compact.py", "    return signing_input + b\".\" + signature", "    return b\".\".join([header_segment, payload_segment, signature])")
V("c04-roundtrip-iv-from-tag-segment", "C04", "break", "R04.7", "extract_compact decodes the iv from the tag segment",
  "rfc7516/compact.py", "        \"iv\": urlsafe_b64decode(iv_segment),", "        \"iv\": urlsafe_b64decode(tag_segment),")
V("c04-roundtrip-tag-not-encoded", "C04", "break", "R04.7", "perform_encrypt stores the raw tag as the encoded segment",
  "rfc7516/message.py", "    obj.base64_segments[\"tag\"] = urlsafe_b64encode(tag)", "    obj.base64_segments[\"tag\"] = tag")
# ------------------------------------------------------------------------------------------------ rules added after the fourth seed batch
V("c01-class-level-segments", "C01", "break", "R01.8", "CompactSignature.segments becomes a class-level dict shared by all tokens",
  "rfc7515/model.py", "    def __init__(self, protected: Header, payload: bytes):\n        self.protected = protected\n        self.payload = payload\n        self.segments: SegmentsDict = {}",
  "    segments: SegmentsDict = {}\n\n    def __init__(self, protected: Header, payload: bytes):\n        self.protected = protected\n        self.payload = payload")
V("c20-class-level-segments", "C20", "break", "R20.1", "CompactSignature.segments becomes a class-level dict shared by all tokens",
  "rfc7515/model.py", "    def __init__(self, protected: Header, payload: bytes):\n        self.protected = protected\n        self.payload = payload\n        self.segments: SegmentsDict = {}",
  "    segments: SegmentsDict = {}\n\n    def __init__(self, protected: Header, payload: bytes):\n        self.protected = protected\n        self.payload = payload")
V("c20-registry-aliases-default-table", "C20", "break", "R20.1", "JWSRegistry.header_registry aliases the class-level default table and is then updated",
  "rfc7515/registry.py", "        self.header_registry: HeaderRegistryDict = {}\n        self.header_registry.update(self.default_header_registry)", "        self.header_registry: HeaderRegistryDict = self.default_header_registry")
V2("c20-kid-cached-property", "C20", "break", "R20.6", "BaseKey.kid becomes a cached_property (goes stale after ensure_kid)",
   [("rfc7517/models.py", "from __future__ import annotations\n", "from __future__ import annotations\nfrom functools import cached_property\n"),
    ("rfc7517/models.py", "    @property\n    def kid(self) -> str | None:", "    @cached_property\n    def kid(self) -> str | None:")])
V("c04-per-recipient-handler-narrowed", "C04", "break", "R04.8", "the per-recipient handler no longer catches the base error",
  "rfc7516/message.py", "        except (AssertionError, JoseError) as error:", "        except (AssertionError, DecodeError) as error:")
V("c05-gate-inside-swallowing-try", "C05", "break", "R05.9", "get_alg moved inside the per-recipient try whose handler skips errors in lenient mode",
  "rfc7516/message.py", "        alg = registry.get_alg(headers[\"alg\"])\n        try:\n            cek = decrypt_recipient(alg, enc, recipient, tag)", "        try:\n            alg = registry.get_alg(headers[\"alg\"])\n            cek = decrypt_recipient(alg, enc, recipient, tag)")
V("c05-registry-rebuilt-without-allow-list", "C05", "break", "R05.10", "rfc7797 rebuilds a given registry from `algorithms` (None) - the caller's allow-list is dropped",
  "rfc7797/compact.py", "    if registry is None:\n        registry = JWSRegistry(algorithms=algorithms)\n\n    if protected[\"b64\"] is True:",
  "    if registry is None:\n        registry = JWSRegistry(algorithms=algorithms)\n    else:\n        registry = JWSRegistry(registry.header_registry, algorithms, registry.strict_check_header)\n\n    if protected[\"b64\"] is True:")
V("c14-normalize-key-unpacks-single-key-set", "C14", "break", "R14.10", "_normalize_key returns the sole key of a one-key set",
  "jwk.py", "        return OctKey.import_key(key)\n    return key", "        return OctKey.import_key(key)\n    if isinstance(key, KeySet) and len(key.keys) == 1:\n        return key.keys[0]\n    return key")
V("c06-normalize-key-builds-oct-key-directly", "C06", "break", "R06.6", "raw key text wrapped as OctKey(raw, raw): the unsafe-text warning is never reached",
  "jwk.py", "        return OctKey.import_key(key)\n    return key", "        return OctKey(key if isinstance(key, bytes) else key.encode(), key)\n    return key")
V("c08-z-resized", "C08", "break", "R08.9", "ECDH output re-sized to curve_key_size // 8 (drops an octet on P-521)",
  "rfc7518/ec_key.py", "            return self.private_key.exchange(ECDH(), pubkey)", "            z = self.private_key.exchange(ECDH(), pubkey)\n            size = self.curve_key_size // 8\n            return z[-size:].rjust(size, b\"\\x00\")")
V("c08-unprotected-general-only", "C08", "break", "R08.10", "shared unprotected header merged for the general serialization only",
  "rfc7516/models.py", "        if isinstance(self.__parent, BaseJSONEncryption) and self.__parent.unprotected:", "        if isinstance(self.__parent, GeneralJSONEncryption) and self.__parent.unprotected:")
V("c13-jwk-with-parameters-goes-lazy", "C13", "break", "R13.7", "a JWK given together with parameters is rebuilt lazily: its own kid / use / alg are dropped",
  "rfc7517/models.py", "        if isinstance(original_value, dict):\n            if parameters is not None:\n                data = {**original_value, **parameters, \"kty\": self.key_type}\n            else:\n                data = {**original_value, \"kty\": self.key_type}",
  "        if isinstance(original_value, dict) and parameters is None:\n            if parameters is not None:\n                data = {**original_value, **parameters, \"kty\": self.key_type}\n            else:\n                data = {**original_value, \"kty\": self.key_type}")
V("c19-dumps-non-ascii", "C19", "break", "R19.5", "json_b64encode emits raw non-ASCII and then encodes as ASCII",
  "util.py", "        text = json.dumps(text, ensure_ascii=True, separators=(\",\", \":\"))", "        text = json.dumps(text, ensure_ascii=False, separators=(\",\", \":\"))")
V("c08-p2s-always-regenerated", "C08", "break", "R08.5", "the salt is generated even when the caller's header carries p2s",
  "rfc7518/jwe_algs.py", "        if \"p2s\" not in headers:\n            p2s = secrets.token_bytes(16)", "        if \"p2sx\" not in headers:\n            p2s = secrets.token_bytes(16)")
# ------------------------------------------------------------------------------------------------ rules added after the fifth seed batch
V("c01-rsa-signature-padded", "C01", "break", "R01.6", "RSA verify left-pads the received signature before handing it to the primitive",
  "rfc7518/jws_algs.py", "    def verify(self, msg: bytes, sig: bytes, key: RSAKey) -> bool:\n        op_key = key.get_op_key(\"verify\")\n        try:\n            op_key.verify(sig, msg, self.padding, self.hash_alg())",
  "    def verify(self, msg: bytes, sig: bytes, key: RSAKey) -> bool:\n        op_key = key.get_op_key(\"verify\")\n        sig = sig.rjust((op_key.key_size + 7) // 8, b\"\\x00\")\n        try:\n            op_key.verify(sig, msg, self.padding, self.hash_alg())", count=2)
V("c02-dir-key-prefix", "C02", "break", "R02.11", "dir takes a prefix of the key before the exact-size check",
  "rfc7518/jwe_algs.py", "        cek = key.raw_value\n        if len(cek) * 8 != size:", "        cek = key.raw_value[: size // 8]\n        if len(cek) * 8 != size:")
V("c06-dir-key-prefix", "C06", "break", "R06.4", "dir takes a prefix of the key before the exact-size check",
  "rfc7518/jwe_algs.py", "        cek = key.raw_value\n        if len(cek) * 8 != size:", "        cek = key.raw_value[: size // 8]\n        if len(cek) * 8 != size:")
V("c04-flattened-drops-sender-key", "C04", "break", "R04.9", "decrypt_json does not forward sender_key for the flattened serialization",
  "jwe.py", "        _attach_recipient_keys(flattened_obj.recipients, private_key, sender_key)", "        _attach_recipient_keys(flattened_obj.recipients, private_key)")
V("c07-oct-import-strips", "C07", "break", "R07.10", "raw secret is stripped of leading whitespace on import",
  "rfc7518/oct_key.py", "        # security check\n        if value.startswith(POSSIBLE_UNSAFE_KEYS):", "        value = value.lstrip()\n        if value.startswith(POSSIBLE_UNSAFE_KEYS):")
V("c05-validate-compact-algorithms-wins", "C05", "break", "R05.12", "validate_compact rebuilds the registry when algorithms is passed although a registry was given",
  "jws.py", "    if registry is None:\n        registry = construct_registry(algorithms)\n\n    headers = obj.headers()", "    if registry is None or algorithms:\n        registry = construct_registry(algorithms)\n\n    headers = obj.headers()")
V("c12-export-echoes-imported-pem", "C12", "break", "R12.11", "as_bytes returns the imported PEM text unchanged",
  "rfc7517/models.py", "        return self.binding.as_bytes(self, encoding, private, password)", "        if isinstance(self.original_value, bytes) and encoding is None and password is None and private is None:\n            return self.original_value\n        return self.binding.as_bytes(self, encoding, private, password)")
V("c13-public-generate-skips-auto-kid", "C13", "break", "R13.8", "ECKey.generate_key returns public keys before the auto_kid step",
  "rfc7518/ec_key.py", "            pub_key = raw_key.public_key()\n            key = cls(pub_key, pub_key, parameters)", "            pub_key = raw_key.public_key()\n            return cls(pub_key, pub_key, parameters)")
V("c17-empty-plaintext-not-compressed", "C17", "break", "R17.3", "compress returns an empty input unchanged (not a DEFLATE stream)",
  "rfc7518/jwe_zips.py", "        data = zlib.compress(s)", "        if not s:\n            return s\n        data = zlib.compress(s)")
V("c14-algorithm-keys-rebound", "C14", "break", "R14.11", "jwe.register_key_set rebinds KeySet.algorithm_keys",
  "jwe.py", "    for _alg in JWE_ALG_MODELS:\n        KeySet.algorithm_keys[_alg.name] = _alg.key_types\n", "    KeySet.algorithm_keys = {_alg.name: _alg.key_types for _alg in JWE_ALG_MODELS}\n")
V("c18-iv-through-segment-dict", "C18", "break", "R18.1", "the content IV is read back through obj.bytes_segments.setdefault (re-used on a second encryption of the object)",
  "rfc7516/message.py", "    iv = enc.generate_iv()\n", "    iv = obj.bytes_segments.setdefault(\"iv\", enc.generate_iv())\n")
V("c05-7797-drops-algorithms-for-plain-headers", "C05", "break", "R05.13", "rfc7797.serialize_compact passes `registry` in the algorithms position for headers without b64",
  "rfc7797/compact.py", "        return _serialize_compact(protected, payload, private_key, algorithms, registry)", "        return _serialize_compact(protected, payload, private_key, registry, registry)")
V("c04-sender-key-from-public-key", "C04", "break", "R04.9", "encrypt_json resolves the 1PU sender key from public_key",
  "jwe.py", "        if sender_key and not recipient.sender_key:\n            recipient.sender_key = _guess_sender_key(recipient, sender_key, True)\n        if not recipient.recipient_key:",
  "        if sender_key and not recipient.sender_key:\n            recipient.sender_key = _guess_sender_key(recipient, public_key, True)\n        if not recipient.recipient_key:")
# ------------------------------------------------------------------------------------------------ rules added after the sixth seed batch
V("c04-tag-aware-of-first-task", "C04", "break", "R04.12", "post_encrypt_recipients reads tag_aware from the first delayed recipient's algorithm",
  "rfc7516/message.py", "    for alg, recipient in tasks:\n        if alg.tag_aware:", "    for alg, recipient in tasks:\n        if tasks[0][0].tag_aware:")
V("c04-benign-tag-aware-local", "C04", "benign", "R04.12", "the trait is read into a local inside the loop",
  "rfc7516/message.py", "    for alg, recipient in tasks:\n        if alg.tag_aware:", "    for alg, recipient in tasks:\n        aware = alg.tag_aware\n        if aware:")
V("c04-direct-mode-of-other-alg", "C04", "break", "R04.12", "decrypt_recipient asks direct_mode of a freshly looked-up model instead of the recipient's algorithm",
  "rfc7516/message.py", "            agreed_upon_key = alg.decrypt_agreed_upon_key_with_tag(enc, recipient, tag)", "            agreed_upon_key = enc.decrypt_agreed_upon_key_with_tag(enc, recipient, tag)  # type: ignore")
V("c05-allow-list-from-header", "C05", "break", "R05.14", "jws.serialize_compact fills a missing allow-list from the header it is asked to sign",
  "jws.py", "    if registry is None:\n        registry = construct_registry(algorithms)\n\n    registry.check_header(protected)\n    obj = CompactSignature(protected, to_bytes(payload))",
  "    if registry is None:\n        if not algorithms and \"alg\" in protected:\n            algorithms = [protected[\"alg\"]]\n        registry = construct_registry(algorithms)\n\n    registry.check_header(protected)\n    obj = CompactSignature(protected, to_bytes(payload))")
V("c01-benign-value-to-bytes-rebound", "C01", "benign", "R01.10", "deserialize_compact converts `value` in place before extracting",
  "jws.py", "    obj = extract_compact(to_bytes(value))", "    value = to_bytes(value)\n    obj = extract_compact(value)")
V("c07-json-b64-sniffed-from-text", "C07", "break", "R07.11", "rfc7797 _extract_json decides 'no b64' from the text of the serialization",
  "rfc7797/json.py", "    headers = member.headers()\n    if \"b64\" not in headers:\n        return None\n\n    payload = to_bytes", "    headers = member.headers()\n    if \"b64\" not in str(value):\n        return None\n\n    payload = to_bytes")
V("c07-pss-length-floor", "C07", "break", "R07.12", "PS* verify refuses signatures whose length is not key_size // 8",
  "rfc7518/jws_algs.py", "        op_key = key.get_op_key(\"verify\")\n        try:\n            op_key.verify(sig, msg, self.padding, self.hash_alg())\n            return True\n        except InvalidSignature:\n            return False\n\n\nJWS_ALGORITHMS",
  "        op_key = key.get_op_key(\"verify\")\n        if len(sig) != op_key.key_size // 8:\n            return False\n        try:\n            op_key.verify(sig, msg, self.padding, self.hash_alg())\n            return True\n        except InvalidSignature:\n            return False\n\n\nJWS_ALGORITHMS")
V("c07-benign-pss-length-ceil", "C07", "benign", "R07.12", "PS* verify pre-checks the exact octet length k = (bits + 7) // 8",
  "rfc7518/jws_algs.py", "        op_key = key.get_op_key(\"verify\")\n        try:\n            op_key.verify(sig, msg, self.padding, self.hash_alg())\n            return True\n        except InvalidSignature:\n            return False\n\n\nJWS_ALGORITHMS",
  "        op_key = key.get_op_key(\"verify\")\n        if len(sig) != (op_key.key_size + 7) // 8:\n            return False\n        try:\n            op_key.verify(sig, msg, self.padding, self.hash_alg())\n            return True\n        except InvalidSignature:\n            return False\n\n\nJWS_ALGORITHMS")
V("c12-okp-public-swapped-after-kid", "C12", "break", "R12.13", "OKPKey.generate_key builds a private key object and swaps in the public native key after ensure_kid",
  "rfc8037/okp_key.py", "        if private:\n            key = cls(raw_key, raw_key, parameters)\n        else:\n            pub_key = raw_key.public_key()\n            key = cls(pub_key, pub_key, parameters)\n        if auto_kid:\n            key.ensure_kid()\n        return key",
  "        key = cls(raw_key, raw_key, parameters)\n        if auto_kid:\n            key.ensure_kid()\n        if not private:\n            key._raw_value = key.original_value = raw_key.public_key()\n        return key")
V("c13-keyset-as-dict-rewrites-kid", "C13", "break", "R13.10", "KeySet.as_dict stores the thumbprint as kid unconditionally",
  "_keys.py", "            # trigger key to generate kid via thumbprint\n            key.ensure_kid()", "            # trigger key to generate kid via thumbprint\n            key.dict_value[\"kid\"] = key.thumbprint()")
V("c14-keyset-first-key-without-kid", "C14", "break", "R14.14", "KeySet.__init__ skips the first key",
  "_keys.py", "        for key in keys:\n            key.ensure_kid()\n        self.keys = keys", "        for key in keys[1:]:\n            key.ensure_kid()\n        self.keys = keys")
V("c14-benign-keyset-kid-test", "C14", "benign", "R14.14", "KeySet.__init__ tests the element's kid before calling ensure_kid",
  "_keys.py", "        for key in keys:\n            key.ensure_kid()\n        self.keys = keys", "        for key in keys:\n            if not key.kid:\n                key.ensure_kid()\n        self.keys = keys")
V("c15-crit-admits-itself", "C15", "break", "R15.9", "names listed in crit are added to the admitted header names",
  "registry.py", "    allowed_keys = set(registry.keys())\n", "    allowed_keys = set(registry.keys()) | set(header.get(\"crit\") or [])\n")
V("c15-jwe-protected-merged-last", "C15", "break", "R15.8", "Recipient.headers merges the protected header last (it now hides the other positions)",
  "rfc7516/models.py", "        rv.update(self.__parent.protected)\n        if isinstance(self.__parent, BaseJSONEncryption) and self.__parent.unprotected:\n            rv.update(self.__parent.unprotected)\n        if self.header:\n            rv.update(self.header)\n        return rv",
  "        if isinstance(self.__parent, BaseJSONEncryption) and self.__parent.unprotected:\n            rv.update(self.__parent.unprotected)\n        if self.header:\n            rv.update(self.header)\n        rv.update(self.__parent.protected)\n        return rv")
V("c15-benign-jws-disjoint-refusal", "C15", "benign", "R15.8", "HeaderMember.headers refuses overlapping names (the repaired form: the known finding disappears)",
  "rfc7515/model.py", "        if self.header:\n            rv.update(self.header)\n        return rv", "        if self.header:\n            if not rv.keys().isdisjoint(self.header):\n                raise ValueError(\"duplicate header parameter\")\n            rv.update(self.header)\n        return rv")
V("c16-b64-crit-membership-untyped", "C16", "break", "E9", "_safe_b64_header tests membership in crit after a None check only",
  "rfc7797/registry.py", "    if isinstance(crit, list) and \"b64\" in crit:", "    if crit is not None and \"b64\" in crit:")
V("c18-p2c-small-constant", "C18", "break", "R18.2", "PBES2 records a default iteration count of 512",
  "rfc7518/jwe_algs.py", "            p2c = self.DEFAULT_P2C\n            recipient.add_header(\"p2c\", p2c)", "            p2c = 512\n            recipient.add_header(\"p2c\", p2c)")
V("c18-ec-generate-curve-rebound", "C18", "break", "R18.8", "ECKey.generate_key silently generates P-384 when P-521 is requested",
  "rfc7518/ec_key.py", "        raw_key = cls.binding.generate_private_key(crv)\n", "        if crv == \"P-521\":\n            crv = \"P-384\"\n        raw_key = cls.binding.generate_private_key(crv)\n")
V("c19-ec-import-x-y-swapped", "C19", "break", "R19.8", "EC JWK import hands y to the x slot and x to the y slot",
  "rfc7518/ec_key.py", "            base64_to_int(obj[\"x\"]),\n            base64_to_int(obj[\"y\"]),\n            curve,\n        )\n        d = base64_to_int", "            base64_to_int(obj[\"y\"]),\n            base64_to_int(obj[\"x\"]),\n            curve,\n        )\n        d = base64_to_int")
V("c19-benign-ec-import-keywords", "C19", "benign", "R19.8", "EC JWK import passes the numbers by keyword",
  "rfc7518/ec_key.py", "            base64_to_int(obj[\"x\"]),\n            base64_to_int(obj[\"y\"]),\n            curve,\n        )\n        d = base64_to_int", "            x=base64_to_int(obj[\"x\"]),\n            y=base64_to_int(obj[\"y\"]),\n            curve=curve,\n        )\n        d = base64_to_int")
V("c11-rsa-import-n-via-table", "C11", "break", "R11.17", "RSA public import decodes n with urlsafe_b64decode + int.from_bytes(little)",
  "rfc7518/rsa_key.py", "        numbers = RSAPublicNumbers(base64_to_int(obj[\"e\"]), base64_to_int(obj[\"n\"]))\n        return numbers.public_key", "        numbers = RSAPublicNumbers(base64_to_int(obj[\"e\"]), int.from_bytes(urlsafe_b64decode(to_bytes(obj[\"n\"])), \"little\"))\n        return numbers.public_key")
V("c11-okp-public-map-misspelt", "C11", "break", "R11.18", "PUBLIC_KEYS_MAP names Ed448 wrongly: a conformant public Ed448 JWK cannot be imported",
  "rfc8037/okp_key.py", "    \"Ed448\": Ed448PublicKey,", "    \"Ed448x\": Ed448PublicKey,")
# ------------------------------------------------------------------------------------------------ realistic behaviour-preserving edits (run against all 20 checks in cross mode)
V2("real-benign-logging", "C16", "benign", "E1", "debug logging added to a consuming entry point", [
   ("jws.py", "from __future__ import annotations\n", "from __future__ import annotations\nimport logging\n"),
   ("jws.py", "    obj = extract_compact(to_bytes(value))", "    logging.getLogger(__name__).debug(\"deserialize_compact called\")\n    obj = extract_compact(to_bytes(value))")])
V2("real-benign-rename-helper", "C04", "benign", "R04.9", "a private helper is renamed consistently", [
   ("jwe.py", "def _attach_recipient_keys(", "def _bind_recipient_keys("),
   ("jwe.py", "        _attach_recipient_keys(general_obj.recipients, private_key, sender_key)", "        _bind_recipient_keys(general_obj.recipients, private_key, sender_key)"),
   ("jwe.py", "        _attach_recipient_keys(flattened_obj.recipients, private_key, sender_key)", "        _bind_recipient_keys(flattened_obj.recipients, private_key, sender_key)")])
V("real-benign-new-unused-helper", "C19", "benign", "R19.1", "a new public helper is added to util.py",
  "util.py", "def json_b64encode(", "def is_base64url(s: str) -> bool:\n    return all(c.isalnum() or c in \"-_\" for c in s)\n\n\ndef json_b64encode(")
V("real-benign-new-header-parameter", "C15", "benign", "R15.3", "a further registered header parameter (RFC 7800 cnf-style extension name) is added to the JWS table",
  "registry.py", "    \"crit\": HeaderParameter(\"Critical\", is_list_str),\n}", "    \"crit\": HeaderParameter(\"Critical\", is_list_str),\n    \"nonce\": HeaderParameter(\"Nonce\", is_str),\n}")
V("real-benign-error-message", "C05", "benign", "R05.3", "an error message is reworded",
  "rfc7515/registry.py", "is not allowed", "is not permitted by the registry")
V("real-benign-warning-added", "C06", "benign", "R06.5", "a deprecation warning is added to KeySet.get_by_kid for kid=None",
  "_keys.py", "        if kid is None and len(self.keys) == 1:\n            return self.keys[0]", "        if kid is None and len(self.keys) == 1:\n            warnings.warn(\"tokens without kid are deprecated\", DeprecationWarning, stacklevel=2)\n            return self.keys[0]")
V("real-benign-type-annotation", "C09", "benign", "R09.1", "a return annotation is refined and a cast added",
  "jwt.py", "    payload = convert_claims(claims, encoder_cls)", "    payload: bytes = convert_claims(claims, encoder_cls)")
V("real-benign-extra-validation", "C11", "benign", "R11.4", "RSA import additionally refuses an even modulus encoding early (a no-op for valid keys)",
  "rfc7518/rsa_key.py", "        numbers = RSAPublicNumbers(base64_to_int(obj[\"e\"]), base64_to_int(obj[\"n\"]))\n        return numbers.public_key", "        if not obj.get(\"n\"):\n            raise ValueError(\"Missing modulus\")\n        numbers = RSAPublicNumbers(base64_to_int(obj[\"e\"]), base64_to_int(obj[\"n\"]))\n        return numbers.public_key")
V2("real-benign-aad-helper", "C02", "benign", "R02.2", "the AAD construction of encrypt and decrypt is moved into one helper", [
   ("rfc7516/message.py", "    if isinstance(obj, BaseJSONEncryption) and obj.aad:\n        aad = aad + b\".\" + urlsafe_b64encode(obj.aad)\n    obj.base64_segments[\"aad\"] = aad\n",
    "    aad = _with_json_aad(obj, aad)\n    obj.base64_segments[\"aad\"] = aad\n"),
   ("rfc7516/message.py", "    aad = obj.base64_segments[\"aad\"]\n    if isinstance(obj, BaseJSONEncryption) and obj.aad:\n        aad = aad + b\".\" + urlsafe_b64encode(obj.aad)\n",
    "    aad = _with_json_aad(obj, obj.base64_segments[\"aad\"])\n"),
   ("rfc7516/message.py", "def perform_decrypt(obj: EncryptionData, registry: JWERegistry) -> None:",
    "def _with_json_aad(obj: EncryptionData, aad: bytes) -> bytes:\n    if isinstance(obj, BaseJSONEncryption) and obj.aad:\n        return aad + b\".\" + urlsafe_b64encode(obj.aad)\n    return aad\n\n\ndef perform_decrypt(obj: EncryptionData, registry: JWERegistry) -> None:")])
V2("real-benign-registry-helper", "C05", "benign", "R05.10", "the four `registry is None -> construct_registry(algorithms)` blocks of jws.py call one helper", [
   ("jws.py", "    if registry is None:\n        registry = construct_registry(algorithms)\n\n    registry.check_header(protected)", "    registry = _registry_for(registry, algorithms)\n\n    registry.check_header(protected)"),
   ("jws.py", "    if registry is None:\n        registry = construct_registry(algorithms)\n\n    headers = obj.headers()", "    registry = _registry_for(registry, algorithms)\n\n    headers = obj.headers()"),
   ("jws.py", "def register_key_set() -> None:", "def _registry_for(registry: JWSRegistry | None, algorithms: list[str] | None) -> JWSRegistry:\n    if registry is None:\n        return construct_registry(algorithms)\n    return registry\n\n\ndef register_key_set() -> None:")])
# ------------------------------------------------------------------------------------------------ rules / engine additions after the seventh seed batch
V2("real-benign-check-key-hook", "C06", "benign", "R06.1", "use + key-type checks of the JWS sign / verify sites move into one new JWSAlgModel.check_key hook (cross-module, dynamic receiver)", [
   ("rfc7515/model.py", "    def check_key_type(self, key: Any) -> None:", "    def check_key(self, key: Any) -> None:\n        key.check_use(\"sig\")\n        self.check_key_type(key)\n\n    def check_key_type(self, key: Any) -> None:"),
   ("jws.py", "    key.check_use(\"sig\")\n    alg.check_key_type(key)\n    key.check_alg(protected[\"alg\"])", "    alg.check_key(key)\n    key.check_alg(protected[\"alg\"])"),
   ("rfc7515/json.py", "    key = find_key(member)\n    key.check_use(\"sig\")\n    alg.check_key_type(key)\n    if member.protected:", "    key = find_key(member)\n    alg.check_key(key)\n    if member.protected:")])
V2("real-benign-hmac-mac-helper", "C07", "benign", "R07.1", "HMAC sign and verify share a new _mac(msg, key, operation) method", [
   ("rfc7518/jws_algs.py", "    def sign(self, msg: bytes, key: OctKey) -> bytes:\n        # it is faster than the one in cryptography\n        op_key = key.get_op_key(\"sign\")\n        return hmac.new(op_key, msg, self.hash_alg).digest()\n\n    def verify(self, msg: bytes, sig: bytes, key: OctKey) -> bool:\n        op_key = key.get_op_key(\"verify\")\n        v_sig = hmac.new(op_key, msg, self.hash_alg).digest()\n        return hmac.compare_digest(sig, v_sig)",
    "    def _mac(self, msg: bytes, key: OctKey, operation: str) -> bytes:\n        op_key = key.get_op_key(operation)  # type: ignore[call-overload]\n        return hmac.new(op_key, msg, self.hash_alg).digest()\n\n    def sign(self, msg: bytes, key: OctKey) -> bytes:\n        return self._mac(msg, key, \"sign\")\n\n    def verify(self, msg: bytes, sig: bytes, key: OctKey) -> bool:\n        v_sig = self._mac(msg, key, \"verify\")\n        return hmac.compare_digest(sig, v_sig)")])
V("c09-hmac-mac-helper-wrong-operation", "C09", "break", "R09.13", "the shared _mac helper asks for the sign operation when verifying",
  "rfc7518/jws_algs.py", "    def verify(self, msg: bytes, sig: bytes, key: OctKey) -> bool:\n        op_key = key.get_op_key(\"verify\")\n        v_sig = hmac.new(op_key, msg, self.hash_alg).digest()",
  "    def verify(self, msg: bytes, sig: bytes, key: OctKey) -> bool:\n        op_key = key.get_op_key(\"sign\")\n        v_sig = hmac.new(op_key, msg, self.hash_alg).digest()")
V("c04-zip-member-popped", "C04", "break", "R04.14", "perform_encrypt pops the zip member out of the protected header",
  "rfc7516/message.py", "        zip_ = registry.get_zip(obj.protected[\"zip\"])\n        plaintext = zip_.compress(obj.plaintext)", "        zip_ = registry.get_zip(obj.protected.pop(\"zip\"))\n        plaintext = zip_.compress(obj.plaintext)")
V("c05-gate-raises-valueerror", "C05", "break", "R05.15", "the JWE gate refuses a not-recommended name with ValueError",
  "rfc7516/registry.py", "            if name not in self.recommended:\n                raise UnsupportedAlgorithmError(f'Algorithm of \"{name}\" is not recommended')\n\n\ndefault_registry", "            if name not in self.recommended:\n                raise ValueError(f'Algorithm of \"{name}\" is not recommended')\n\n\ndefault_registry")
V("c07-header-dumps-default-hook", "C07", "break", "R07.5", "json_b64encode serialises with default=str",
  "util.py", "        text = json.dumps(text, ensure_ascii=True, separators=(\",\", \":\"))", "        text = json.dumps(text, ensure_ascii=True, separators=(\",\", \":\"), default=str)")
V("c12-header-dumps-default-hook", "C12", "break", "R12.14", "json_b64encode serialises non-JSON objects (a Key given as jwk) through a default= hook",
  "util.py", "        text = json.dumps(text, ensure_ascii=True, separators=(\",\", \":\"))", "        text = json.dumps(text, ensure_ascii=True, separators=(\",\", \":\"), default=dict)")
V("c19-header-loads-parse-int", "C19", "break", "R19.5", "json_b64decode parses integers as floats",
  "util.py", "        return json.loads(data)", "        return json.loads(data, parse_int=float)")
V2("c10-expired-error-formats-date", "C10", "break", "R10.9", "the expired-token error formats the NumericDate with datetime.fromtimestamp", [
   ("rfc7519/registry.py", "import time\n", "import time\nimport datetime\n"),
   ("rfc7519/registry.py", "        if value < (self.now - self.leeway):\n            raise ExpiredTokenError()", "        if value < (self.now - self.leeway):\n            raise ExpiredTokenError(datetime.datetime.fromtimestamp(value).isoformat())")])
V("c11-validate-only-truthy-members", "C11", "break", "R11.4", "JWK members are type-checked only when truthy",
  "rfc7517/models.py", "            if k in dict_key:\n                try:\n                    registry[k].validate(dict_key[k])", "            if dict_key.get(k):\n                try:\n                    registry[k].validate(dict_key[k])")
V("c11-der-public-parser-first", "C11", "break", "R11.19", "DER input is offered to the public-key parser first",
  "rfc7517/pem.py", "        try:\n            key = load_der_private_key(raw, password=password, backend=default_backend())\n        except ValueError:\n            key = load_der_public_key(raw, backend=default_backend())",
  "        try:\n            key = load_der_public_key(raw, backend=default_backend())\n        except ValueError:\n            key = load_der_private_key(raw, password=password, backend=default_backend())")
V("c12-jwk-validator-accepts-mappings", "C12", "break", "R12.14", "is_jwk accepts anything with keys()",
  "registry.py", "    if not isinstance(value, dict):\n        raise ValueError(\"must be a JWK\")", "    if not hasattr(value, \"keys\"):\n        raise ValueError(\"must be a JWK\")")
V("c16-payload-error-reads-pos", "C16", "break", "E6", "jwt.decode reads .pos of whatever ValueError json.loads raised",
  "jwt.py", "    except (TypeError, ValueError, RecursionError):\n        raise InvalidPayloadError()", "    except (TypeError, RecursionError):\n        raise InvalidPayloadError()\n    except ValueError as error:\n        raise InvalidPayloadError(f\"invalid JSON at {error.pos}\")")
V2("c16-kid-compared-with-compare-digest", "C16", "break", "E1", "KeySet.get_by_kid compares the kid strings with hmac.compare_digest", [
   ("_keys.py", "import random\n", "import random\nimport hmac\n"),
   ("_keys.py", "            if key.kid == kid:\n                return key", "            if isinstance(kid, str) and key.kid is not None and hmac.compare_digest(key.kid, kid):\n                return key")])
V2("c18-generate-iv-size-parameter", "C18", "break", "R18.2", "generate_iv takes the size from its caller", [
   ("rfc7516/models.py", "    def generate_iv(self) -> bytes:\n        return secrets.token_bytes(self.iv_size // 8)", "    def generate_iv(self, size: int = 0) -> bytes:\n        return secrets.token_bytes((size or self.iv_size) // 8)"),
   ("rfc7516/message.py", "    iv = enc.generate_iv()\n", "    iv = enc.generate_iv(len(obj.protected) * 8)\n")])
V("c04-ec-export-size-floor", "C04", "break", "R04.15", "EC public export computes the coordinate size with floor division",
  "rfc7518/ec_key.py", "        size = (numbers.curve.key_size + 7) // 8", "        size = numbers.curve.key_size // 8")
V("c04-benign-ec-export-size-negated-floor", "C04", "benign", "R04.15", "the coordinate size is written -(-bits // 8)",
  "rfc7518/ec_key.py", "        size = (numbers.curve.key_size + 7) // 8", "        size = -(-numbers.curve.key_size // 8)")
V("c01-alias-table-in-gate", "C01", "break", "R01.12", "JWS get_alg resolves Ed25519 / Ed448 to the EdDSA model through an alias table",
  "rfc7515/registry.py", "        if not isinstance(name, str) or name not in self.algorithms:\n            raise UnsupportedAlgorithmError(f'Algorithm of \"{name}\" is not supported')\n\n        if self.allowed:",
  "        name = {\"Ed25519\": \"EdDSA\", \"Ed448\": \"EdDSA\"}.get(name, name) if isinstance(name, str) else name\n        if not isinstance(name, str) or name not in self.algorithms:\n            raise UnsupportedAlgorithmError(f'Algorithm of \"{name}\" is not supported')\n\n        if self.allowed:")
# ------------------------------------------------------------------------------------------------ from the full run of the second mutation family
V("c11-as-der-drops-encoding", "C11", "break", "R11.10", "as_der no longer asks for the DER encoding",
  "rfc7517/models.py", "        return self.as_bytes(encoding=\"DER\", private=private, password=password)", "        return self.as_bytes(private=private, password=password)")
V("c19-recover-prime-factors-arg-order", "C19", "break", "R19.8", "rsa_recover_prime_factors is given (n, e, d)",
  "rfc7518/rsa_key.py", "rsa_recover_prime_factors(public_numbers.n, d, public_numbers.e)", "rsa_recover_prime_factors(public_numbers.n, public_numbers.e, d)")
V("c05-default-registry-under-other-test", "C05", "break", "R05.10", "encrypt_json falls back to the default registry when no sender key is given, whatever registry the caller passed",
  "jwe.py", "    elif registry is None:\n        registry = default_registry\n\n    for recipient in obj.recipients:", "    elif sender_key is None:\n        registry = default_registry\n\n    for recipient in obj.recipients:")
V("c19-to-bytes-encode-args-swapped", "C19", "break", "R19.5", "to_bytes passes (errors, charset) to str.encode",
  "util.py", "        return x.encode(charset, errors)", "        return x.encode(errors, charset)")
# ------------------------------------------------------------------------------------------------ from the third mutation family and the third refactoring batch
V("c04-unprotected-passed-twice", "C04", "break", "R04.11", "extract_flattened_json hands the protected header on as the unprotected one",
  "rfc7516/json.py", "    obj = FlattenedJSONEncryption(protected, None, unprotected, aad)", "    obj = FlattenedJSONEncryption(protected, None, protected, aad)")
V("c04-member-filled-from-sibling", "C04", "break", "R04.17", "the unprotected member is filled from the protected header",
  "rfc7516/json.py", "        data[\"unprotected\"] = obj.unprotected", "        data[\"unprotected\"] = obj.protected")
V("c04-member-guarded-by-sibling", "C04", "break", "R04.17", "the unprotected member is written when there is a protected header",
  "rfc7516/json.py", "    if obj.unprotected:\n        data[\"unprotected\"] = obj.unprotected", "    if obj.protected:\n        data[\"unprotected\"] = obj.unprotected")
V("c04-empty-ciphertext-refused", "C04", "break", "R04.18", "extract_compact refuses an empty ciphertext segment",
  "rfc7516/compact.py", "    obj = CompactEncryption(protected)\n", "    if not ciphertext_segment:\n        raise DecodeError(\"Missing ciphertext\")\n    obj = CompactEncryption(protected)\n")
V("c04-required-member-conditional", "C04", "break", "R04.16", "the ciphertext member is written only when it is not empty",
  "rfc7516/json.py", "        \"ciphertext\": to_str(obj.base64_segments[\"ciphertext\"]),\n        \"tag\": to_str(obj.base64_segments[\"tag\"]),\n    }\n",
  "        \"tag\": to_str(obj.base64_segments[\"tag\"]),\n    }\n    if obj.base64_segments[\"ciphertext\"]:\n        data[\"ciphertext\"] = to_str(obj.base64_segments[\"ciphertext\"])\n")
V("c14-guess-key-given-the-header-dict", "C14", "break", "R14.2", "rfc7797 serialize_json hands the header dict to guess_key instead of the member object",
  "rfc7797/json.py", "    key = guess_key(private_key, _member, True)", "    key = guess_key(private_key, headers, True)")
V("c12-as-bytes-none-exports-public-flag", "C12", "break", "R12.7", "as_bytes(private=None) serialises the raw key with the flag False",
  "rfc7517/pem.py", "        return dump_pem_key(key.raw_value, encoding, key.is_private, password)", "        return dump_pem_key(key.raw_value, encoding, False, password)")
V("c13-thumbprint-fast-path-unsorted", "C13", "break", "R13.2", "thumbprint of a key that holds exactly the listed members dumps the dict as it is",
  "rfc7638/__init__.py", "    data = OrderedDict()\n    for k in sorted_fields:\n        data[k] = dict_value[k]\n",
  "    if len(dict_value) == len(fields):\n        data = dict_value\n    else:\n        data = OrderedDict()\n        for k in sorted_fields:\n            data[k] = dict_value[k]\n")
V("c14-get-by-kid-last-match", "C14", "break", "R14.1", "get_by_kid returns the last key with the kid, not the first",
  "_keys.py", "        for key in self.keys:\n            if key.kid == kid:\n                return key\n        raise InvalidKeyIdError", "        for key in reversed(self.keys):\n            if key.kid == kid:\n                return key\n        raise InvalidKeyIdError")
V("c14-pick-random-ignores-types-when-single", "C14", "break", "R14.4", "pick_random_key skips the key-type filter for a set of one key",
  "_keys.py", "        if key_types:\n            keys = [k for k in self.keys if k.key_type in key_types]", "        if key_types and len(self.keys) > 1:\n            keys = [k for k in self.keys if k.key_type in key_types]")
V("c15-registry-merge-into-shared-default", "C15", "break", "R15.5", "JWSRegistry merges the caller's table into the class-level default table",
  "rfc7515/registry.py", "        self.header_registry: HeaderRegistryDict = {}\n        self.header_registry.update(self.default_header_registry)", "        self.header_registry: HeaderRegistryDict = self.default_header_registry")
V("c15-list-validator-skips-empty-members", "C15", "break", "R15.3", "is_list_str looks at truthy members only",
  "registry.py", "    if not all(isinstance(value, str) for value in values):", "    if not all(isinstance(value, str) for value in values if value):")
V("c11-registry-validation-skips-null", "C11", "break", "R11.4", "validate_dict_key_registry validates a member only when its value is not None",
  "rfc7517/models.py", "            if k in dict_key:\n                try:\n                    registry[k].validate(dict_key[k])", "            if dict_key.get(k) is not None:\n                try:\n                    registry[k].validate(dict_key[k])")
V("c13-benign-thumbprint-dict-comprehension", "C13", "benign", "", "thumbprint members through a dict comprehension over sorted(fields)",
  "rfc7638/__init__.py", "    sorted_fields = sorted(fields)\n\n    data = OrderedDict()\n    for k in sorted_fields:\n        data[k] = dict_value[k]\n", "    data = {k: dict_value[k] for k in sorted(fields)}\n")
V("c14-benign-get-by-kid-next", "C14", "benign", "", "get_by_kid through next(generator, None)",
  "_keys.py", "        for key in self.keys:\n            if key.kid == kid:\n                return key\n        raise InvalidKeyIdError(f'No key for kid: \"{kid}\"')",
  "        found = next((key for key in self.keys if key.kid == kid), None)\n        if found is None:\n            raise InvalidKeyIdError(f'No key for kid: \"{kid}\"')\n        return found")
V("c12-benign-as-bytes-single-exit", "C12", "benign", "", "as_bytes selects (key, flag) and calls dump_pem_key once",
  "rfc7517/pem.py", "        if private is True:\n            return dump_pem_key(key.private_key, encoding, private, password)\n        elif private is False:\n            return dump_pem_key(key.public_key, encoding, private, password)\n        return dump_pem_key(key.raw_value, encoding, key.is_private, password)",
  "        if private is True:\n            native_key, is_private = key.private_key, True\n        elif private is False:\n            native_key, is_private = key.public_key, False\n        else:\n            native_key, is_private = key.raw_value, key.is_private\n        return dump_pem_key(native_key, encoding, is_private, password)")
V("c15-benign-list-validator-merged", "C15", "benign", "", "is_list_str with one merged condition",
  "registry.py", "    if not isinstance(values, list):\n        raise ValueError(\"must be a list[str]\")\n\n    if not all(isinstance(value, str) for value in values):\n        raise ValueError(\"must be a list[str]\")",
  "    if not isinstance(values, list) or any(not isinstance(value, str) for value in values):\n        raise ValueError(\"must be a list[str]\")")
V("c08-benign-concat-kdf-selector", "C08", "benign", "", "AlgorithmID member chosen through a selector constant, tag part through a conditional expression",
  "rfc7518/derive_key.py", "    if key_size:\n        alg_id = u32be_len_input(header[\"alg\"])\n        bit_size = key_size\n    else:\n        alg_id = u32be_len_input(header[\"enc\"])\n        bit_size = cek_size\n",
  "    id_member, bit_size = (\"alg\", key_size) if key_size else (\"enc\", cek_size)\n    alg_id = u32be_len_input(header[id_member])\n")
V("c06-key-ops-string-accepted-again", "C06", "break", "R06.8", "the key_ops validator accepts a bare string again (F25 re-opened)",
  "registry.py", "        ], multiple=True),", "        ]),")
V("c11-jwk-view-stored-before-validation", "C11", "break", "R11.22", "the lazily built JWK view is stored before it is validated",
  "rfc7517/models.py", "        self.validate_dict_key(data)\n        # fill the existing dict in place", "        # fill the existing dict in place")
V("c16-dispatch-by-truthiness", "C16", "break", "E11", "the general / flattened JWS reader is chosen by the truthiness of the signatures member",
  "jws.py", "    if \"signatures\" in value:\n        general_obj", "    if value.get(\"signatures\"):\n        general_obj")
V("c19-oct-k-stripped", "C19", "break", "R19.10", "padding characters are stripped from both ends of the oct k member",
  "rfc7518/oct_key.py", "        return urlsafe_b64decode(to_bytes(value[\"k\"]))", "        return urlsafe_b64decode(to_bytes(value[\"k\"]).strip(b\"=\"))")
V("c14-single-key-set-skips-pick", "C14", "break", "R14.2", "a set of one key is resolved by get_by_kid even when a random pick was asked for (no kid written)",
  "jwk.py", "        if not kid and use_random:", "        if not kid and use_random and len(_norm_key.keys) > 1:")
V("c14-kid-empty-is-none", "C14", "break", "R14.15", "key.kid maps an empty kid to None",
  "rfc7517/models.py", "        return t.cast(t.Optional[str], self.get(\"kid\"))", "        return t.cast(t.Optional[str], self.get(\"kid\") or None)")
V("c06-use-check-skipped-with-key-ops", "C06", "break", "R06.9", "check_use is skipped for keys that declare key_ops",
  "rfc7517/models.py", "        if designed_use and designed_use != use:", "        if designed_use and not self.get(\"key_ops\") and designed_use != use:")
V("c12-rsa-overrides-as-pem", "C12", "break", "R12.15", "RSAKey overrides as_pem with its own private / public selector",
  "rfc7518/rsa_key.py", "class RSAKey(AsymmetricKey[RSAPrivateKey, RSAPublicKey]):\n    key_type = \"RSA\"\n", "class RSAKey(AsymmetricKey[RSAPrivateKey, RSAPublicKey]):\n    key_type = \"RSA\"\n\n    def as_pem(self, private=None, password=None):  # type: ignore[no-untyped-def]\n        return self.as_bytes(\"PEM\", private is True or password is not None, password)\n\n")


# ------------------------------------------------------------------------------------------------ rules of the ninth seed batch
V("c01-dispatch-on-signature-member", "C01", "break", "R01.16", "the flattened reader is chosen whenever a top-level `signature` is present (a `signatures` array next to it is never looked at)",
  "jws.py", "    if \"signatures\" in value:\n        general_obj = extract_general_json(value)", "    if \"signature\" not in value:\n        general_obj = extract_general_json(value)")
V("c02-dispatch-on-ciphertext-truthiness", "C02", "break", "R02.16", "decrypt_json reads the general syntax only when the recipients member is truthy",
  "jwe.py", "    if \"recipients\" in data:\n        general_obj = extract_general_json(data)", "    if data.get(\"recipients\"):\n        general_obj = extract_general_json(data)")
V("c01-dispatch-flag-benign", "C01", "benign", "R01.16", "the dispatch test held in a local flag",
  "jws.py", "    if \"signatures\" in value:\n        general_obj = extract_general_json(value)", "    is_general = \"signatures\" in value\n    if is_general:\n        general_obj = extract_general_json(value)")
V("c05-jwe-registry-outranks-list", "C05", "break", "R05.16", "decrypt_json looks at `algorithms` only when no registry was passed",
  "jwe.py", "    if algorithms:\n        registry = JWERegistry(algorithms=algorithms)\n    elif registry is None:\n        registry = default_registry\n\n    if \"recipients\" in data:",
  "    if registry is None:\n        registry = JWERegistry(algorithms=algorithms) if algorithms else default_registry\n\n    if \"recipients\" in data:")
V("c10-class-level-rule-cache", "C10", "break", "R10.11", "validate() memoises the rule lookup on the instance",
  "rfc7519/registry.py", "            func = getattr(self, \"validate_\" + key, None)\n", "            func = getattr(self, \"validate_\" + key, None)\n            self._last_rule = func\n")
V("c14-7797-header-from-input", "C14", "break", "R14.16", "rfc7797 serialize_json emits the caller's header dict instead of the member's (a recorded kid is lost when there was none)",
  "rfc7797/json.py", "    if _member.header:\n        rv[\"header\"] = _member.header", "    if member.get(\"header\"):\n        rv[\"header\"] = member[\"header\"]")
V("c15-key-before-header-check", "C15", "break", "R15.10", "serialize_compact resolves the key (which may write a kid) before the header is judged",
  "jws.py", "    registry.check_header(protected)\n    obj = CompactSignature(protected, to_bytes(payload))\n    alg: JWSAlgModel = registry.get_alg(protected[\"alg\"])\n    key: Key = guess_key(private_key, obj, True)\n",
  "    obj = CompactSignature(protected, to_bytes(payload))\n    key: Key = guess_key(private_key, obj, True)\n    registry.check_header(protected)\n    alg: JWSAlgModel = registry.get_alg(protected[\"alg\"])\n")
V("c18-key-set-size-dropped", "C18", "break", "R18.10", "generate_key_set no longer hands crv_or_size on (every key gets the class default)",
  "_keys.py", "            key = cls.registry_cls.generate_key(key_type, crv_or_size, parameters, private)", "            key = cls.registry_cls.key_types[key_type].generate_key(parameters=parameters, private=private)")
V("c08-tolerance-outside-loop", "C08", "break", "R08.18", "the handler that tolerates a failing recipient wraps the whole recipients loop",
  "rfc7516/message.py", "    for recipient in obj.recipients:\n        headers = recipient.headers()\n        registry.check_header(headers, True)\n        # Step 6, Determine the Key Management Mode employed by the algorithm\n        # specified by the \"alg\" (algorithm) Header Parameter.\n        alg = registry.get_alg(headers[\"alg\"])\n        try:\n            cek = decrypt_recipient(alg, enc, recipient, tag)\n            cek_set.add(cek)\n        except (AssertionError, JoseError) as error:\n            if registry.verify_all_recipients:\n                raise error\n",
  "    try:\n        for recipient in obj.recipients:\n            headers = recipient.headers()\n            registry.check_header(headers, True)\n            alg = registry.get_alg(headers[\"alg\"])\n            cek = decrypt_recipient(alg, enc, recipient, tag)\n            cek_set.add(cek)\n    except (AssertionError, JoseError) as error:\n        if registry.verify_all_recipients:\n            raise error\n")

V("c19-to-bytes-shares-bytearray", "C19", "break", "R19.13", "to_bytes hands a bytearray back as itself (the caller's buffer stays shared with the key)",
  "util.py", "    if isinstance(x, bytes):\n        return x\n    if isinstance(x, str):", "    if isinstance(x, (bytes, bytearray)):\n        return x\n    if isinstance(x, str):")
V("c19-to-bytes-result-variable", "C19", "benign", "", "to_bytes written with one result variable and an elif chain",
  "util.py", "    if isinstance(x, bytes):\n        return x\n    if isinstance(x, str):\n        return x.encode(charset, errors)\n    if isinstance(x, (int, float)):\n        return str(x).encode(charset, errors)\n    return bytes(x)\n",
  "    if isinstance(x, bytes):\n        result = x\n    elif isinstance(x, str):\n        result = x.encode(charset, errors)\n    elif isinstance(x, (int, float)):\n        result = str(x).encode(charset, errors)\n    else:\n        result = bytes(x)\n    return result\n")
V("c01-flattened-protected-kept-when-truthy", "C01", "break", "R01.18", "the flattened reader keeps the received protected member only when it is truthy",
  "rfc7515/json.py", "    if \"protected\" in value:\n        _sig[\"protected\"] = value[\"protected\"]\n    if \"header\" in value:", "    if value.get(\"protected\"):\n        _sig[\"protected\"] = value[\"protected\"]\n    if \"header\" in value:")
V("c07-verify-side-random-key", "C07", "break", "R07.19", "deserialize_json resolves its key with use_random=True",
  "jws.py", "    def find_key(obj: Any) -> Key:\n        return guess_key(public_key, obj)\n", "    def find_key(obj: Any) -> Key:\n        return guess_key(public_key, obj, True)\n")