"""Scalar replacement of private NamedTuples that are new to the rule catalogue.

A refactoring that gives a name to a tuple which private helpers pass around (`class _Segments(NamedTuple): header; payload; signature`,
`return _Segments(h, p, s)`, `segs.header`) does not change a single value that flows.  The rules speak about those values, so the wrapper is removed
before they run: the constructor call is the tuple display of its arguments, `x.field` on a local that holds such a value is `x[i]`, `x._asdict()`
is the dict display of the fields, and a local that is only ever subscripted by constants is unpacked at its definition
(`x = f(); ... x[0] ... x[1]`  ->  `x__0, x__1 = f(); ... x__0 ... x__1`).  Exact equivalences for values of a NamedTuple class; a local is
only treated when every binding of it is such a value.  Classes that exist in the reference tree are left alone (the rules know them)."""
from __future__ import annotations
import ast
import copy
from typing import Dict, List, Optional, Set, Tuple


_NT_METHODS: Dict[str, Dict[str, ast.FunctionDef]] = {}


def _nt_classes(trees: List[Tuple[str, ast.Module]], known: Set[str]) -> Dict[str, List[str]]:
    out: Dict[str, List[str]] = {}
    _NT_METHODS.clear()
    for mod, tree in trees:
        for st in tree.body:
            if not isinstance(st, ast.ClassDef) or f"{mod}:{st.name}" in known:
                continue
            if not any((isinstance(b, ast.Name) and b.id == "NamedTuple") or (isinstance(b, ast.Attribute) and b.attr == "NamedTuple") for b in st.bases):
                continue
            fields = [x.target.id for x in st.body if isinstance(x, ast.AnnAssign) and isinstance(x.target, ast.Name)]
            if fields and st.name not in out:
                out[st.name] = fields
                _NT_METHODS[st.name] = {x.name: x for x in st.body if isinstance(x, ast.FunctionDef) and not x.decorator_list}
            elif st.name in out:
                out[st.name] = []  # two new classes of one name: ambiguous, leave both alone
    return {k: v for k, v in out.items() if v}


def _ctor_tuple(call: ast.Call, fields: List[str]):
    if len(call.args) == 1 and isinstance(call.args[0], ast.Starred) and not call.keywords:
        # NT(*xs): the tuple of the elements of xs (exactly len(fields) of them, or the constructor raises TypeError as the unpacking would ValueError)
        t = ast.copy_location(ast.Call(func=ast.Name(id="tuple", ctx=ast.Load()), args=[call.args[0].value], keywords=[]), call)
        t._jv_arity = len(fields)  # type: ignore[attr-defined]
        return t
    if any(isinstance(a, ast.Starred) for a in call.args) or any(k.arg is None for k in call.keywords):
        return None
    vals: List[Optional[ast.expr]] = list(call.args) + [None] * (len(fields) - len(call.args))
    if len(call.args) > len(fields):
        return None
    pos = len(call.args)
    for k in call.keywords:  # keywords must continue in field order (evaluation order is the textual order)
        if pos >= len(fields) or k.arg != fields[pos]:
            return None
        vals[pos] = k.value
        pos += 1
    if any(v is None for v in vals):
        return None
    return ast.copy_location(ast.Tuple(elts=[v for v in vals if v is not None], ctx=ast.Load()), call)


def scalarise(trees: List[Tuple[str, ast.Module]], known: Set[str]) -> List[str]:
    """rewrite the trees in place; returns the names of the NamedTuple classes that were dissolved.  A class name that several modules define
    (each its own private tuple) means, inside a module, that module's class; elsewhere it is ambiguous and left alone."""
    per_mod: Dict[str, Dict[str, List[str]]] = {}
    meths: Dict[str, Dict[str, Dict[str, ast.FunctionDef]]] = {}
    for mod, tree in trees:
        per_mod[mod] = dict(_nt_classes([(mod, tree)], known))
        meths[mod] = {k: dict(v) for k, v in _NT_METHODS.items()}
    glob = _nt_classes(trees, known)
    gmeths = {k: dict(v) for k, v in _NT_METHODS.items()}
    done: Set[str] = set()
    for mod, tree in trees:
        visible = {k: v for k, v in glob.items()}
        vm = {k: v for k, v in gmeths.items() if k in visible}
        # a class imported by name from the module that defines it
        for st in tree.body:
            if isinstance(st, ast.ImportFrom) and st.module:
                for a in st.names:
                    srcs = [m_ for m_ in per_mod if a.name in per_mod[m_] and (m_ == st.module or m_.endswith("." + st.module) or st.module.endswith(m_))]
                    if len(srcs) == 1 and (a.asname or a.name) == a.name:
                        visible[a.name] = per_mod[srcs[0]][a.name]
                        vm[a.name] = meths[srcs[0]].get(a.name, {})
        visible.update(per_mod[mod])
        vm.update(meths[mod])
        if not visible:
            continue
        _fold_module_constants(tree, visible)
        _NT_METHODS.clear()
        _NT_METHODS.update(vm)
        done.update(_scalarise_with(trees, [(mod, tree)], visible))
    return sorted(done)


def _fold_module_constants(tree: ast.Module, nts: Dict[str, List[str]]) -> None:
    """`_GENERAL = _Syntax(sign_general, extract_general, verify_general)` at module level, bound once, the arguments plain names / constants:
    `_GENERAL.extract` anywhere in the module is `extract_general` (a record of functions used as a strategy object)."""
    import copy
    stores: Dict[str, int] = {}
    for x in ast.walk(tree):
        if isinstance(x, ast.Name) and isinstance(x.ctx, (ast.Store, ast.Del)):
            stores[x.id] = stores.get(x.id, 0) + 1
    consts: Dict[str, Dict[str, ast.expr]] = {}
    for st in tree.body:
        if isinstance(st, ast.Assign) and len(st.targets) == 1 and isinstance(st.targets[0], ast.Name) and isinstance(st.value, ast.Call) \
                and isinstance(st.value.func, ast.Name) and st.value.func.id in nts and stores.get(st.targets[0].id) == 1:
            t_ = _ctor_tuple(st.value, nts[st.value.func.id])
            if isinstance(t_, ast.Tuple) and all(isinstance(e, (ast.Name, ast.Constant)) for e in t_.elts) \
                    and all(not isinstance(e, ast.Name) or stores.get(e.id, 0) <= 1 for e in t_.elts):
                consts[st.targets[0].id] = dict(zip(nts[st.value.func.id], t_.elts))
    if not consts:
        return

    class F(ast.NodeTransformer):
        def visit_Attribute(self, n: ast.Attribute):
            self.generic_visit(n)
            if isinstance(n.value, ast.Name) and isinstance(n.ctx, ast.Load) and n.value.id in consts and n.attr in consts[n.value.id]:
                return ast.copy_location(copy.deepcopy(consts[n.value.id][n.attr]), n)
            return n
    for fn in ast.walk(tree):
        if isinstance(fn, (ast.FunctionDef, ast.AsyncFunctionDef)):
            params = {a.arg for a in ast.walk(fn.args) if isinstance(a, ast.arg)}
            local = {x.id for x in ast.walk(fn) if isinstance(x, ast.Name) and isinstance(x.ctx, (ast.Store, ast.Del))}
            if (params | local) & set(consts):
                continue
            F().visit(fn)


def _scalarise_with(all_trees: List[Tuple[str, ast.Module]], trees: List[Tuple[str, ast.Module]], nts: Dict[str, List[str]]) -> List[str]:
    if not nts:
        return []
    # functions (by simple name, package wide) all of whose returns construct one of these classes
    returns: Dict[str, Set[str]] = {}
    local_mods = {m_ for m_, _t in trees}
    for _mod, tree in all_trees:
        for fn in ast.walk(tree):
            if not isinstance(fn, (ast.FunctionDef, ast.AsyncFunctionDef)):
                continue
            if getattr(fn, "_jv_ret_nt", None) in nts:  # decided by an earlier pass (its returns are tuple displays by now)
                returns.setdefault(fn.name, set()).add(fn._jv_ret_nt)  # type: ignore[attr-defined]
                continue
            rets = [r for r in ast.walk(fn) if isinstance(r, ast.Return)]
            kinds = set()
            for r in rets:
                v = r.value
                if isinstance(v, ast.Call) and isinstance(v.func, ast.Name) and v.func.id in nts:
                    kinds.add(v.func.id)
                else:
                    kinds.add("")
            if rets and len(kinds) == 1 and "" not in kinds:
                returns.setdefault(fn.name, set()).add(next(iter(kinds)))
                fn._jv_ret_nt = next(iter(kinds))  # type: ignore[attr-defined]
    ret_nt = {f: next(iter(k)) for f, k in returns.items() if len(k) == 1}
    defs_per_name: Dict[str, int] = {}
    for _mod, tree in all_trees:
        for fn in ast.walk(tree):
            if isinstance(fn, (ast.FunctionDef, ast.AsyncFunctionDef)):
                defs_per_name[fn.name] = defs_per_name.get(fn.name, 0) + 1
    ret_nt = {f: k for f, k in ret_nt.items() if defs_per_name.get(f) == 1}

    def value_kind(v: ast.AST) -> Optional[str]:
        if isinstance(v, ast.Call):
            f = v.func
            nm = f.id if isinstance(f, ast.Name) else (f.attr if isinstance(f, ast.Attribute) else None)
            if nm in nts and isinstance(f, ast.Name):
                return nm
            if nm in ret_nt:
                return ret_nt[nm]
        return None

    for _mod, tree in trees:
        for fn in [x for x in ast.walk(tree) if isinstance(x, (ast.FunctionDef, ast.AsyncFunctionDef))]:
            # locals every binding of which is a value of one class
            kinds: Dict[str, Set[Optional[str]]] = {}
            for n in ast.walk(fn):
                if isinstance(n, ast.Assign) and len(n.targets) == 1 and isinstance(n.targets[0], ast.Name):
                    kinds.setdefault(n.targets[0].id, set()).add(value_kind(n.value))
                elif isinstance(n, ast.AnnAssign) and isinstance(n.target, ast.Name) and n.value is not None:
                    kinds.setdefault(n.target.id, set()).add(value_kind(n.value))
                elif isinstance(n, ast.Name) and isinstance(n.ctx, (ast.Store, ast.Del)):
                    kinds.setdefault(n.id, set())
            other_stores: Dict[str, int] = {}
            for n in ast.walk(fn):
                if isinstance(n, ast.Name) and isinstance(n.ctx, (ast.Store, ast.Del)):
                    other_stores[n.id] = other_stores.get(n.id, 0) + 1
            plain: Dict[str, int] = {}
            for n in ast.walk(fn):
                if isinstance(n, (ast.Assign,)) and len(n.targets) == 1 and isinstance(n.targets[0], ast.Name):
                    plain[n.targets[0].id] = plain.get(n.targets[0].id, 0) + 1
                elif isinstance(n, ast.AnnAssign) and isinstance(n.target, ast.Name) and n.value is not None:
                    plain[n.target.id] = plain.get(n.target.id, 0) + 1
            params = {a.arg for a in fn.args.args + fn.args.kwonlyargs + fn.args.posonlyargs}
            local_nt = {v: next(iter(k)) for v, k in kinds.items() if len(k) == 1 and None not in k and v not in params and other_stores.get(v) == plain.get(v)}

            class R(ast.NodeTransformer):
                def visit_FunctionDef(self, n):
                    if n is fn:
                        self.generic_visit(n)
                    return n
                visit_AsyncFunctionDef = visit_FunctionDef

                def visit_Lambda(self, n):
                    return n

                def visit_Attribute(self, n: ast.Attribute):
                    self.generic_visit(n)
                    if isinstance(n.value, ast.Name) and n.value.id in local_nt and isinstance(n.ctx, ast.Load) and n.attr in nts[local_nt[n.value.id]]:
                        i = nts[local_nt[n.value.id]].index(n.attr)
                        return ast.copy_location(ast.Subscript(value=n.value, slice=ast.Constant(value=i), ctx=ast.Load()), n)
                    return n

                def visit_Call(self, n: ast.Call):
                    self.generic_visit(n)
                    if isinstance(n.func, ast.Name) and n.func.id in nts:
                        t = _ctor_tuple(n, nts[n.func.id])
                        if t is not None:
                            return t
                    if isinstance(n.func, ast.Attribute) and isinstance(n.func.value, ast.Name) and n.func.value.id in local_nt and not n.keywords \
                            and n.func.attr in _NT_METHODS.get(local_nt[n.func.value.id], {}):
                        m = _NT_METHODS[local_nt[n.func.value.id]][n.func.attr]
                        ps = [a.arg for a in m.args.args]
                        body = [b for b in m.body if not (isinstance(b, ast.Expr) and isinstance(b.value, ast.Constant))]
                        if len(body) == 1 and isinstance(body[0], ast.Return) and body[0].value is not None and ps and len(n.args) == len(ps) - 1 \
                                and all(isinstance(a, (ast.Name, ast.Constant)) for a in n.args) and not m.args.vararg and not m.args.kwarg and not m.args.kwonlyargs:
                            mp = dict(zip(ps, [n.func.value] + list(n.args)))

                            class S(ast.NodeTransformer):
                                def visit_Name(self, x: ast.Name):
                                    return copy.deepcopy(mp[x.id]) if x.id in mp and isinstance(x.ctx, ast.Load) else x
                            e2 = S().visit(copy.deepcopy(body[0].value))
                            return self.visit(ast.copy_location(e2, n))
                    if isinstance(n.func, ast.Attribute) and n.func.attr == "_asdict" and not n.args and not n.keywords and isinstance(n.func.value, ast.Name) \
                            and n.func.value.id in local_nt:
                        fs = nts[local_nt[n.func.value.id]]
                        return ast.copy_location(ast.Dict(keys=[ast.Constant(value=f) for f in fs],
                                                          values=[ast.Subscript(value=copy.deepcopy(n.func.value), slice=ast.Constant(value=i), ctx=ast.Load()) for i, _f in enumerate(fs)]), n)
                    return n
            R().visit(fn)
            ast.fix_missing_locations(fn)
    # a local bound once to a call / tuple display and read only through constant subscripts: unpack at the definition
    for _mod, tree in trees:
        for fn in [x for x in ast.walk(tree) if isinstance(x, (ast.FunctionDef, ast.AsyncFunctionDef))]:
            _unpack_subscripted_locals(fn, nts, ret_nt)
    return sorted(nts)


def _unpack_subscripted_locals(fn: ast.AST, nts: Dict[str, List[str]], ret_nt: Dict[str, str]) -> None:
    uses: Dict[str, List[ast.AST]] = {}
    subs: Dict[str, List[ast.Subscript]] = {}
    stores: Dict[str, List[ast.AST]] = {}
    parents: Dict[int, ast.AST] = {}
    for p in ast.walk(fn):
        for c in ast.iter_child_nodes(p):
            parents[id(c)] = p
    for n in ast.walk(fn):
        if isinstance(n, ast.Name):
            if isinstance(n.ctx, ast.Load):
                uses.setdefault(n.id, []).append(n)
                par = parents.get(id(n))
                if isinstance(par, ast.Subscript) and par.value is n and isinstance(par.slice, ast.Constant) and isinstance(par.slice.value, int) and isinstance(par.ctx, ast.Load):
                    subs.setdefault(n.id, []).append(par)
            else:
                stores.setdefault(n.id, []).append(n)
    for name, st_nodes in stores.items():
        if len(subs.get(name, [])) != len(uses.get(name, [])) or not subs.get(name):
            continue
        asgs = []
        arity = None
        ok = True
        for sn in st_nodes:
            asg = parents.get(id(sn))
            if not (isinstance(asg, ast.Assign) and len(asg.targets) == 1 and asg.targets[0] is sn):
                ok = False
                break
            v = asg.value
            ar = None
            if isinstance(v, ast.Tuple):
                ar = len(v.elts)
            elif isinstance(v, ast.Call) and getattr(v, "_jv_arity", None) is not None:
                ar = v._jv_arity  # type: ignore[attr-defined]
            elif isinstance(v, ast.Call):
                f = v.func
                nm = f.id if isinstance(f, ast.Name) else (f.attr if isinstance(f, ast.Attribute) else None)
                if nm in ret_nt:
                    ar = len(nts[ret_nt[nm]])
            if ar is None or (arity is not None and ar != arity):
                ok = False
                break
            arity = ar
            asgs.append(asg)
        if not ok or arity is None or any(not (0 <= s_.slice.value < arity) for s_ in subs[name]):
            continue
        names = [f"{name}__{i}" for i in range(arity)]
        for asg in asgs:
            if isinstance(asg.value, ast.Call) and getattr(asg.value, "_jv_arity", None) is not None:
                asg.value = asg.value.args[0]  # `a, b, c = tuple(xs)` is `a, b, c = xs`
            tgt = ast.Tuple(elts=[ast.Name(id=x, ctx=ast.Store()) for x in names], ctx=ast.Store())
            asg.targets = [ast.copy_location(tgt, asg.targets[0])]
        for s_ in subs[name]:
            par = parents.get(id(s_))
            new_ = ast.copy_location(ast.Name(id=names[s_.slice.value], ctx=ast.Load()), s_)
            for fld, val in ast.iter_fields(par):
                if val is s_:
                    setattr(par, fld, new_)
                elif isinstance(val, list):
                    for j, x in enumerate(val):
                        if x is s_:
                            val[j] = new_
        ast.fix_missing_locations(fn)
