"""S1 - program model: modules, imports, symbols, classes (MRO), functions.

Pure `ast`.  Nothing is imported from the analysed repository.
"""
from __future__ import annotations
import ast
from .canon import canonicalise
from .inline import inline_new_helpers, package_helpers, module_bindings
from .renames import normalise as normalise_names
import hashlib
import os
from dataclasses import dataclass, field
from typing import Dict, Iterator, List, Optional, Tuple, Union

PKG = "joserfc"


class AnalysisError(Exception):
    """The analysis cannot interpret the tree (vanished anchor, unknown construct ...)."""


# ----------------------------------------------------------------------------- entities


@dataclass(eq=False)
class FunctionInfo:
    name: str
    qualname: str  # joserfc.rfc7515.compact:verify_compact / ...:Class.meth / ...:f.<locals>.g
    module: "Module"
    node: Union[ast.FunctionDef, ast.AsyncFunctionDef, ast.Lambda]
    cls: Optional["ClassInfo"] = None
    parent: Optional["FunctionInfo"] = None  # enclosing function for closures
    decorators: List[str] = field(default_factory=list)
    nested: Dict[str, "FunctionInfo"] = field(default_factory=dict)

    # ------------------------------------------------------------------ helpers
    @property
    def short(self) -> str:
        return self.qualname.replace(PKG + ".", "", 1)

    @property
    def is_property(self) -> bool:
        return any(d in ("property", "cached_property", "functools.cached_property") for d in self.decorators)

    @property
    def is_cached(self) -> bool:
        return any(d.split(".")[-1] in ("cached_property", "lru_cache", "cache") for d in self.decorators)

    @property
    def is_classmethod(self) -> bool:
        return "classmethod" in self.decorators

    @property
    def is_staticmethod(self) -> bool:
        return "staticmethod" in self.decorators

    @property
    def is_abstract(self) -> bool:
        return any(d.split(".")[-1] == "abstractmethod" for d in self.decorators)

    @property
    def is_overload(self) -> bool:
        return any(d.split(".")[-1] == "overload" for d in self.decorators)

    @property
    def params(self) -> List[str]:
        a = self.node.args
        return [x.arg for x in a.posonlyargs + a.args] + ([a.vararg.arg] if a.vararg else []) + \
            [x.arg for x in a.kwonlyargs] + ([a.kwarg.arg] if a.kwarg else [])

    @property
    def pos_params(self) -> List[str]:
        a = self.node.args
        return [x.arg for x in a.posonlyargs + a.args]

    def param_default(self, name: str) -> Optional[ast.expr]:
        a = self.node.args
        pos = a.posonlyargs + a.args
        defaults = [None] * (len(pos) - len(a.defaults)) + list(a.defaults)
        for p, d in zip(pos, defaults):
            if p.arg == name:
                return d
        for p, d in zip(a.kwonlyargs, a.kw_defaults):
            if p.arg == name:
                return d
        return None

    @property
    def self_name(self) -> Optional[str]:
        """name of the implicit first parameter (self / cls) if this is a bound method"""
        if self.cls is None or self.is_staticmethod or isinstance(self.node, ast.Lambda):
            return None
        pp = self.pos_params
        return pp[0] if pp else None

    @property
    def body(self) -> List[ast.stmt]:
        if isinstance(self.node, ast.Lambda):
            return [ast.Return(value=self.node.body, lineno=self.node.lineno, col_offset=self.node.col_offset,
                               end_lineno=self.node.end_lineno, end_col_offset=self.node.end_col_offset)]
        return self.node.body

    @property
    def lineno(self) -> int:
        return self.node.lineno

    def loc(self, node: Optional[ast.AST] = None) -> str:
        n = node if node is not None and hasattr(node, "lineno") else self.node
        return f"{self.module.relpath}:{getattr(n, 'lineno', 0)}"

    def __repr__(self) -> str:
        return f"<fn {self.short}>"


@dataclass(eq=False)
class ClassInfo:
    name: str
    qualname: str  # joserfc.rfc7515.model:JWSAlgModel
    module: "Module"
    node: ast.ClassDef
    base_exprs: List[ast.expr] = field(default_factory=list)
    bases: List["ClassInfo"] = field(default_factory=list)  # repo bases, resolved
    ext_bases: List[str] = field(default_factory=list)  # external bases, canonical names
    methods: Dict[str, FunctionInfo] = field(default_factory=dict)  # defined here (last def wins, overloads skipped)
    class_attrs: Dict[str, ast.expr] = field(default_factory=dict)  # name -> value expr (assigned in class body)
    class_annots: Dict[str, ast.expr] = field(default_factory=dict)
    mro: List["ClassInfo"] = field(default_factory=list)
    subclasses: List["ClassInfo"] = field(default_factory=list)  # direct

    @property
    def short(self) -> str:
        return self.qualname.replace(PKG + ".", "", 1)

    @property
    def fullname(self) -> str:  # mypy style
        return self.qualname.replace(":", ".")

    def lookup(self, name: str) -> Optional[FunctionInfo]:
        for c in self.mro:
            if name in c.methods:
                return c.methods[name]
        return None

    def lookup_attr(self, name: str) -> Optional[Tuple["ClassInfo", ast.expr]]:
        for c in self.mro:
            if name in c.class_attrs:
                return c, c.class_attrs[name]
        return None

    def all_subclasses(self) -> List["ClassInfo"]:
        out: List[ClassInfo] = []
        seen = set()
        stack = list(self.subclasses)
        while stack:
            c = stack.pop()
            if id(c) in seen:
                continue
            seen.add(id(c))
            out.append(c)
            stack.extend(c.subclasses)
        return out

    def is_subclass_of(self, other: "ClassInfo") -> bool:
        return other in self.mro

    def mangle(self, attr: str) -> str:
        if attr.startswith("__") and not attr.endswith("__"):
            return "_" + self.name.lstrip("_") + attr
        return attr

    def __repr__(self) -> str:
        return f"<class {self.short}>"


@dataclass(eq=False)
class Module:
    name: str  # joserfc.rfc7515.compact
    path: str
    relpath: str  # src/joserfc/rfc7515/compact.py
    src: str
    tree: ast.Module
    is_package: bool
    # name -> ('import', modname, attr|None) | ('func', FunctionInfo) | ('class', ClassInfo) | ('var', [value exprs])
    symbols: Dict[str, tuple] = field(default_factory=dict)
    functions: List[FunctionInfo] = field(default_factory=list)  # all, including methods & nested
    classes: List[ClassInfo] = field(default_factory=list)
    body_fn: Optional[FunctionInfo] = None  # pseudo function for module-level code

    @property
    def short(self) -> str:
        return self.name.replace(PKG + ".", "", 1)

    def __repr__(self) -> str:
        return f"<module {self.name}>"


@dataclass(frozen=True)
class Ext:
    """a reference to something outside the analysed package"""
    name: str  # canonical dotted name, e.g. cryptography.exceptions.InvalidSignature, zlib.decompressobj

    def __repr__(self) -> str:
        return f"ext:{self.name}"


Resolved = Union[FunctionInfo, ClassInfo, Module, Ext, Tuple[str, Module, str], None]


# ----------------------------------------------------------------------------- program


def _typeddict_constructors(parsed) -> None:
    """`SegmentsDict()` / `JSONSignatureDict(signature=s)` where the name is a TypedDict of the package: calling a TypedDict builds the plain dict of its
    keyword arguments - `{}` / `{"signature": s}`."""
    names = set()
    for _name, _path, _src, tree, _k in parsed:
        for st in ast.walk(tree):
            if isinstance(st, ast.ClassDef) and any((isinstance(b, ast.Name) and b.id == "TypedDict") or (isinstance(b, ast.Attribute) and b.attr == "TypedDict") for b in st.bases):
                names.add(st.name)
            elif isinstance(st, ast.Assign) and len(st.targets) == 1 and isinstance(st.targets[0], ast.Name) and isinstance(st.value, ast.Call):
                f = st.value.func
                if (isinstance(f, ast.Name) and f.id == "TypedDict") or (isinstance(f, ast.Attribute) and f.attr == "TypedDict"):
                    names.add(st.targets[0].id)
    if not names:
        return
    for _name, _path, _src, tree, _k in parsed:
        bound = set()
        for st in tree.body:
            if isinstance(st, ast.ImportFrom):
                bound |= {a.asname or a.name for a in st.names if a.name in names and (a.asname or a.name) == a.name}
            elif isinstance(st, ast.ClassDef) and st.name in names:
                bound.add(st.name)
            elif isinstance(st, ast.Assign) and len(st.targets) == 1 and isinstance(st.targets[0], ast.Name) and st.targets[0].id in names:
                bound.add(st.targets[0].id)
        if not bound:
            continue

        class T(ast.NodeTransformer):
            def visit_Call(self, n: ast.Call):
                self.generic_visit(n)
                if isinstance(n.func, ast.Name) and n.func.id in bound and not n.args and all(k.arg is not None for k in n.keywords):
                    d = ast.Dict(keys=[ast.Constant(value=k.arg) for k in n.keywords], values=[k.value for k in n.keywords])
                    return ast.copy_location(d, n)
                return n
        for fn in ast.walk(tree):
            if isinstance(fn, (ast.FunctionDef, ast.AsyncFunctionDef)):
                local = {x.id for x in ast.walk(fn) if isinstance(x, ast.Name) and isinstance(x.ctx, (ast.Store, ast.Del))} | {a.arg for a in ast.walk(fn.args) if isinstance(a, ast.arg)}
                if local & bound:
                    continue
                T().visit(fn)
        ast.fix_missing_locations(tree)


def _expand_private_contextmanagers(parsed) -> None:
    """`with _cm(a, b) [as v]: BODY` where `_cm` is a new private generator decorated with `contextlib.contextmanager` that yields exactly once, as a
    statement: the generator's body with BODY at the place of the `yield` (and `v` bound to the yielded value) - which is how the decorator runs
    it: an exception of BODY is raised at the yield, where the generator's own try / except / finally deals with it; a generator that handles the
    exception without re-raising suppresses it, as the expanded try statement does.  Parameters are replaced by the (plain) arguments, `*args` by the
    tuple of the remaining ones.  Used from another module, the names the generator body needs are imported there."""
    import copy
    from .renames import reference
    ref_f, _ref_g = reference()
    cms = {}  # (module short, name) -> (FunctionDef, tree)
    for name, _path, _src, tree, _is_pkg in parsed:
        module = name.replace(PKG + ".", "", 1) if name != PKG else ""
        for st in tree.body:
            if isinstance(st, ast.FunctionDef) and st.name.startswith("_") and f"{module}:{st.name}" not in ref_f and len(st.decorator_list) == 1 \
                    and ast.unparse(st.decorator_list[0]) in ("contextmanager", "contextlib.contextmanager"):
                ys = [x for x in ast.walk(st) if isinstance(x, (ast.Yield, ast.YieldFrom))]
                if len(ys) != 1 or isinstance(ys[0], ast.YieldFrom) or any(isinstance(x, (ast.Return, ast.FunctionDef, ast.Lambda, ast.Global, ast.Nonlocal)) for b in st.body for x in ast.walk(b)):
                    continue
                a = st.args
                if a.kwarg or a.kwonlyargs or a.posonlyargs or any(not isinstance(d, ast.Constant) for d in a.defaults):
                    continue
                # the yield is an expression statement, not inside a loop
                ok = [False]

                def find(stmts, in_loop):
                    for s_ in stmts:
                        if isinstance(s_, ast.Expr) and s_.value is ys[0]:
                            ok[0] = not in_loop
                        for fld in ("body", "orelse", "finalbody"):
                            b = getattr(s_, fld, None)
                            if isinstance(b, list) and b and isinstance(b[0], ast.stmt):
                                find(b, in_loop or isinstance(s_, (ast.For, ast.While)))
                        if isinstance(s_, ast.Try):
                            for h in s_.handlers:
                                find(h.body, in_loop)
                find(st.body, False)
                if ok[0]:
                    cms[(module, st.name)] = (st, tree, _is_pkg)
    if not cms:
        return

    def abs_module(module: str, is_pkg: bool, node: ast.ImportFrom) -> Optional[str]:
        if node.level == 0:
            return node.module
        base = module.split(".") if module else []
        if not is_pkg and base:
            base = base[:-1]
        if node.level > 1:
            base = base[: len(base) - (node.level - 1)]
        if node.module:
            base = base + node.module.split(".")
        return ".".join([PKG] + base)

    for name, _path, _src, tree, is_pkg in parsed:
        module = name.replace(PKG + ".", "", 1) if name != PKG else ""
        visible = {}
        for st in tree.body:
            if isinstance(st, ast.FunctionDef) and (module, st.name) in cms:
                visible[st.name] = (module, st.name)
            elif isinstance(st, ast.ImportFrom):
                src = abs_module(module, is_pkg, st)
                if src and (src == PKG or src.startswith(PKG + ".")):
                    sm = src[len(PKG) + 1:]
                    for al in st.names:
                        if (sm, al.name) in cms:
                            visible[al.asname or al.name] = (sm, al.name)
        if not visible:
            continue
        bound_here = set()
        for st in tree.body:
            if isinstance(st, (ast.Import, ast.ImportFrom)):
                bound_here |= {(al.asname or al.name).split(".")[0] for al in st.names}
            elif isinstance(st, (ast.FunctionDef, ast.ClassDef, ast.AsyncFunctionDef)):
                bound_here.add(st.name)
            elif isinstance(st, (ast.Assign, ast.AnnAssign)):
                for t_ in (st.targets if isinstance(st, ast.Assign) else [st.target]):
                    bound_here |= {x.id for x in ast.walk(t_) if isinstance(x, ast.Name)}
        new_imports: List[ast.stmt] = []
        counter = [0]

        def expand(w: ast.With):
            if len(w.items) != 1:
                return None
            it = w.items[0]
            c = it.context_expr
            if not (isinstance(c, ast.Call) and isinstance(c.func, ast.Name) and c.func.id in visible and not c.keywords):
                return None
            if it.optional_vars is not None and not isinstance(it.optional_vars, ast.Name):
                return None
            g, gtree, g_is_pkg = cms[visible[c.func.id]]
            gmod = visible[c.func.id][0]
            if any(isinstance(x, ast.Starred) for x in c.args):
                return None
            if not all(isinstance(x, (ast.Name, ast.Constant, ast.Attribute)) for x in c.args):
                return None
            pos = [x.arg for x in g.args.args]
            if len(c.args) > len(pos) and g.args.vararg is None:
                return None
            m: Dict[str, ast.expr] = {}
            for p_, a_ in zip(pos, c.args):
                m[p_] = a_
            nd = len(g.args.defaults)
            for i_, p_ in enumerate(pos):
                if p_ not in m:
                    j = i_ - (len(pos) - nd)
                    if j < 0:
                        return None
                    m[p_] = g.args.defaults[j]
            if g.args.vararg is not None:
                m[g.args.vararg.arg] = ast.Tuple(elts=[copy.deepcopy(x) for x in c.args[len(pos):]], ctx=ast.Load())
            # names of the generator body: its locals are renamed apart, its globals must mean the same here
            counter[0] += 1
            glocals = {x.id for b in g.body for x in ast.walk(b) if isinstance(x, ast.Name) and isinstance(x.ctx, ast.Store)} | \
                      {h.name for b in g.body for h in ast.walk(b) if isinstance(h, ast.ExceptHandler) and h.name}
            ren = {n_: f"{n_}__cm{counter[0]}" for n_ in glocals}
            import builtins as _bi
            free = {x.id for b in g.body for x in ast.walk(b) if isinstance(x, ast.Name) and isinstance(x.ctx, ast.Load)} - glocals - set(m) - set(dir(_bi))
            if gmod != module:
                for nm in sorted(free):
                    if nm in bound_here:
                        continue  # (assumed to denote the same thing: both modules import it from the package's own modules)
                    found = None
                    for st_ in gtree.body:
                        if isinstance(st_, ast.ImportFrom) and any((al.asname or al.name) == nm for al in st_.names):
                            src = abs_module(gmod, g_is_pkg, st_)
                            al = [al for al in st_.names if (al.asname or al.name) == nm][0]
                            found = ast.ImportFrom(module=src, names=[ast.alias(name=al.name, asname=al.asname)], level=0)
                        elif isinstance(st_, ast.Import) and any((al.asname or al.name.split(".")[0]) == nm for al in st_.names):
                            al = [al for al in st_.names if (al.asname or al.name.split(".")[0]) == nm][0]
                            found = ast.Import(names=[ast.alias(name=al.name, asname=al.asname)])
                    if found is None:
                        return None
                    new_imports.append(found)
                    bound_here.add(nm)

            class S(ast.NodeTransformer):
                def visit_Name(self, n: ast.Name):
                    if n.id in m and isinstance(n.ctx, ast.Load):
                        return ast.copy_location(copy.deepcopy(m[n.id]), n)
                    if n.id in ren:
                        return ast.copy_location(ast.Name(id=ren[n.id], ctx=n.ctx), n)
                    return n

                def visit_ExceptHandler(self, h: ast.ExceptHandler):
                    self.generic_visit(h)
                    if h.name and h.name in ren:
                        h.name = ren[h.name]
                    return h
            gb = [copy.deepcopy(b) for b in g.body if not (isinstance(b, ast.Expr) and isinstance(b.value, ast.Constant))]
            placed = [False]

            def put(stmts):
                for k, s_ in enumerate(stmts):
                    if isinstance(s_, ast.Expr) and isinstance(s_.value, ast.Yield):
                        pre: List[ast.stmt] = []
                        if it.optional_vars is not None:
                            val = s_.value.value if s_.value.value is not None else ast.Constant(value=None)
                            pre = [ast.copy_location(ast.Assign(targets=[copy.deepcopy(it.optional_vars)], value=S().visit(val), type_comment=None), w)]
                        stmts[k:k + 1] = pre + list(w.body)
                        placed[0] = True
                        return True
                    for fld in ("body", "orelse", "finalbody"):
                        b = getattr(s_, fld, None)
                        if isinstance(b, list) and b and isinstance(b[0], ast.stmt) and put(b):
                            return True
                    if isinstance(s_, ast.Try):
                        for h in s_.handlers:
                            if put(h.body):
                                return True
                return False
            gb = [S().visit(b) for b in gb]
            if not put(gb) or not placed[0]:
                return None
            for b in gb:
                ast.copy_location(b, w)
                ast.fix_missing_locations(b)
            return gb

        def walk(stmts: List[ast.stmt]) -> List[ast.stmt]:
            out: List[ast.stmt] = []
            for st in stmts:
                for fld in ("body", "orelse", "finalbody"):
                    b = getattr(st, fld, None)
                    if isinstance(b, list) and b and isinstance(b[0], ast.stmt):
                        setattr(st, fld, walk(b))
                if isinstance(st, ast.Try):
                    for h in st.handlers:
                        h.body = walk(h.body)
                if isinstance(st, ast.With):
                    r = expand(st)
                    if r is not None:
                        out.extend(r)
                        continue
                out.append(st)
            return out
        tree.body = walk(tree.body)
        if new_imports:
            at = 0
            for i_, st in enumerate(tree.body):
                if (isinstance(st, ast.ImportFrom) and st.module == "__future__") or (isinstance(st, ast.Expr) and isinstance(st.value, ast.Constant) and i_ == 0):
                    at = i_ + 1
            for im in new_imports:
                ast.copy_location(im, tree.body[0])
                ast.fix_missing_locations(im)
            tree.body[at:at] = new_imports


def _expand_private_decorators(parsed) -> None:
    """A new private decorator (or decorator factory called with constants) of the textbook shape

        def _deco(<factory parameters>):            # optional outer level
            def decorator(func):
                @functools.wraps(func)               # optional
                def wrapper(<the decorated function's own parameters>):
                    <PRE>
                    return func(<the same parameters>)      # or `func(...)` as the last statement, also inside try / with
                return wrapper
            return decorator

    applied as the only decorator of a function of the same module whose parameters line up with `wrapper`'s: the function becomes PRE followed by
    its own body at the place of the call, with the factory arguments written in - which is what calling it does.  Anything else (a wrapper that
    uses the result, calls func twice or conditionally in a loop, *args pass-through that PRE inspects, stacked decorators) is left alone."""
    import copy
    from .renames import reference
    ref_f, _ref_g = reference()

    def analyse(d: ast.FunctionDef):
        """-> (factory params, func param name, wrapper FunctionDef) or None"""
        if d.decorator_list:
            return None
        body = [st for st in d.body if not (isinstance(st, ast.Expr) and isinstance(st.value, ast.Constant))]
        if len(body) != 2 or not isinstance(body[0], ast.FunctionDef) or not (isinstance(body[1], ast.Return) and isinstance(body[1].value, ast.Name) and body[1].value.id == body[0].name):
            return None
        inner = body[0]
        a = d.args
        if a.vararg or a.kwarg or a.kwonlyargs or a.posonlyargs or a.defaults:
            return None
        ib = [st for st in inner.body if not (isinstance(st, ast.Expr) and isinstance(st.value, ast.Constant))]
        if len(ib) == 2 and isinstance(ib[0], ast.FunctionDef) and isinstance(ib[1], ast.Return) and isinstance(ib[1].value, ast.Name) and ib[1].value.id == ib[0].name \
                and len(inner.args.args) == 1 and not inner.decorator_list:
            # factory level
            ia = inner.args
            if ia.vararg or ia.kwarg or ia.kwonlyargs or ia.posonlyargs or ia.defaults:
                return None
            return [x.arg for x in a.args], inner.args.args[0].arg, ib[0]
        if len(a.args) == 1:
            return [], a.args[0].arg, inner
        return None

    def wrapper_ok(w: ast.FunctionDef, fname: str):
        """the one call of func in w: (statement list holding it, index, 'return' | 'expr'), or None"""
        decs = [ast.unparse(x) for x in w.decorator_list]
        if any(not (x.endswith(f"wraps({fname})")) for x in decs):
            return None
        wa = w.args
        if wa.vararg or wa.kwarg or wa.kwonlyargs or wa.posonlyargs or wa.defaults:
            return None
        uses = [x for x in ast.walk(ast.Module(body=w.body, type_ignores=[])) if isinstance(x, ast.Name) and x.id == fname]
        if len(uses) != 1:
            return None
        found = []

        def scan(stmts, in_loop):
            for i, st in enumerate(stmts):
                if isinstance(st, (ast.Return, ast.Expr)) and isinstance(st.value, ast.Call) and isinstance(st.value.func, ast.Name) and st.value.func.id == fname:
                    found.append((stmts, i, "return" if isinstance(st, ast.Return) else "expr", in_loop, st.value))
                for fld in ("body", "orelse", "finalbody"):
                    b = getattr(st, fld, None)
                    if isinstance(b, list) and b and isinstance(b[0], ast.stmt):
                        scan(b, in_loop or isinstance(st, (ast.For, ast.While)))
                if isinstance(st, ast.Try):
                    for h in st.handlers:
                        scan(h.body, in_loop)
        scan(w.body, False)
        if len(found) != 1 or found[0][3]:
            return None
        stmts, i, kind, _l, call = found[0]
        params = [x.arg for x in wa.args]
        if call.keywords or [ast.unparse(x) for x in call.args] != params:
            return None
        if kind == "expr" and i != len(stmts) - 1:
            return None
        return stmts, i, kind

    for name, _path, _src, tree, _is_pkg in parsed:
        module = name.replace(PKG + ".", "", 1) if name != PKG else ""
        decos = {}
        for st in tree.body:
            if isinstance(st, ast.FunctionDef) and st.name.startswith("_") and f"{module}:{st.name}" not in ref_f:
                r = analyse(st)
                if r is not None and wrapper_ok(r[2], r[1]) is not None:
                    decos[st.name] = r
        if not decos:
            continue
        for F in [x for x in ast.walk(tree) if isinstance(x, ast.FunctionDef)]:
            if len(F.decorator_list) != 1:
                continue
            d = F.decorator_list[0]
            if isinstance(d, ast.Call) and isinstance(d.func, ast.Name) and d.func.id in decos and not d.keywords and all(isinstance(x, ast.Constant) for x in d.args):
                fparams, fname, w = decos[d.func.id]
                if len(d.args) != len(fparams):
                    continue
                consts = dict(zip(fparams, d.args))
            elif isinstance(d, ast.Name) and d.id in decos and not decos[d.id][0]:
                fparams, fname, w = decos[d.id]
                consts = {}
            else:
                continue
            fa = F.args
            if fa.vararg or fa.kwarg or fa.kwonlyargs or fa.posonlyargs:
                continue
            wp = [x.arg for x in w.args.args]
            fp = [x.arg for x in fa.args]
            if len(wp) != len(fp):
                continue
            w2 = copy.deepcopy(w)
            loc = wrapper_ok(w2, fname)
            if loc is None:
                continue
            stmts, i, kind = loc
            fbody = [st for st in F.body]
            if fbody and isinstance(fbody[0], ast.Expr) and isinstance(fbody[0].value, ast.Constant) and isinstance(fbody[0].value.value, str) and len(fbody) > 1:
                fbody = fbody[1:]  # the docstring
            has_value_return = any(isinstance(x, ast.Return) and x.value is not None for st in fbody for x in ast.walk(st))
            if kind == "expr" and has_value_return:
                continue
            if any(isinstance(x, (ast.Yield, ast.YieldFrom, ast.Await)) for st in fbody for x in ast.walk(st)):
                continue
            # names: wrapper parameters -> the function's own; factory parameters -> the constants; wrapper locals must not meet the function's names
            ren = dict(zip(wp, fp))
            wlocals = {x.id for st in w2.body for x in ast.walk(st) if isinstance(x, ast.Name) and isinstance(x.ctx, ast.Store)}
            fnames = {x.id for st in fbody for x in ast.walk(st) if isinstance(x, ast.Name)} | set(fp)
            if wlocals & fnames:
                continue

            class S(ast.NodeTransformer):
                def visit_Name(self, n: ast.Name):
                    if n.id in consts and isinstance(n.ctx, ast.Load):
                        return ast.copy_location(copy.deepcopy(consts[n.id]), n)
                    if n.id in ren:
                        return ast.copy_location(ast.Name(id=ren[n.id], ctx=n.ctx), n)
                    return n
            stmts[i:i + 1] = [ast.Pass()]  # placeholder, identity kept below
            marker = stmts[i]
            new_body = [S().visit(st) for st in w2.body]

            def put(lst) -> bool:
                for k, st in enumerate(lst):
                    if st is marker:
                        lst[k:k + 1] = fbody
                        return True
                    for fld in ("body", "orelse", "finalbody"):
                        b = getattr(st, fld, None)
                        if isinstance(b, list) and b and isinstance(b[0], ast.stmt) and put(b):
                            return True
                    if isinstance(st, ast.Try):
                        for h in st.handlers:
                            if put(h.body):
                                return True
                return False
            if not put(new_body):
                continue
            F.body = new_body
            F.decorator_list = []
            ast.fix_missing_locations(F)


def _push_down_new_bases(parsed) -> None:
    """A new private class put between a class of the reference tree and its base ("pull up method": `class _RSASignatureAlgModel(JWSAlgModel)` now
    holds sign / verify of RSAAlgModel and RSAPSSAlgModel): the methods and class attributes the reference tree knows on the subclass, and that the
    subclass now inherits from the new base, are copied back into the subclass - attribute lookup finds exactly these on it.  Methods that call
    super() stay where they are (their meaning depends on the class they stand in)."""
    import copy
    from .renames import reference
    ref_f, ref_g = reference()
    for name, _path, _src, tree, _is_pkg in parsed:
        module = name.replace(PKG + ".", "", 1) if name != PKG else ""
        classes = {c.name: c for c in tree.body if isinstance(c, ast.ClassDef)}
        ref_classes = {q.split(":", 1)[1].split(".")[0] for q in list(ref_f) + list(ref_g) if q.startswith(module + ":") and "." in q.split(":", 1)[1]}
        for C in classes.values():
            if C.name not in ref_classes:
                continue
            chain: List[ast.ClassDef] = []

            def walk(c: ast.ClassDef) -> None:
                for b in c.bases:
                    if isinstance(b, ast.Name) and b.id in classes and b.id not in ref_classes and classes[b.id] not in chain and classes[b.id] is not C:
                        chain.append(classes[b.id])
                        walk(classes[b.id])
            walk(C)
            if not chain:
                continue
            have = set()
            for st in C.body:
                if isinstance(st, (ast.FunctionDef, ast.AsyncFunctionDef)):
                    have.add(st.name)
                elif isinstance(st, ast.Assign):
                    have |= {t_.id for t_ in st.targets if isinstance(t_, ast.Name)}
                elif isinstance(st, ast.AnnAssign) and isinstance(st.target, ast.Name) and st.value is not None:
                    have.add(st.target.id)
            for B in chain:
                for st in B.body:
                    if isinstance(st, ast.FunctionDef) and st.name not in have and f"{module}:{C.name}.{st.name}" in ref_f \
                            and not any(isinstance(x, ast.Name) and x.id == "super" for x in ast.walk(st)):
                        C.body.append(copy.deepcopy(st))
                        have.add(st.name)
                    elif isinstance(st, ast.Assign) and len(st.targets) == 1 and isinstance(st.targets[0], ast.Name) and st.targets[0].id not in have \
                            and f"{module}:{C.name}.{st.targets[0].id}" in ref_g:
                        C.body.append(copy.deepcopy(st))
                        have.add(st.targets[0].id)
                    elif isinstance(st, ast.AnnAssign) and isinstance(st.target, ast.Name) and st.value is not None and st.target.id not in have \
                            and f"{module}:{C.name}.{st.target.id}" in ref_g:
                        C.body.append(copy.deepcopy(st))
                        have.add(st.target.id)


def _drop_overload_stubs(parsed) -> None:
    """`@typing.overload` stubs are replaced at run time by the definition that follows them in the same body: only that one is the function."""
    def is_overload(d: ast.AST) -> bool:
        return (isinstance(d, ast.Name) and d.id == "overload") or (isinstance(d, ast.Attribute) and d.attr == "overload")
    for _n, _p, _s, tree, _k in parsed:
        for node in ast.walk(tree):
            body = getattr(node, "body", None)
            if not isinstance(node, (ast.Module, ast.ClassDef)) or not isinstance(body, list):
                continue
            real = {st.name for st in body if isinstance(st, (ast.FunctionDef, ast.AsyncFunctionDef)) and not any(is_overload(d) for d in st.decorator_list)}
            keep = [st for st in body if not (isinstance(st, (ast.FunctionDef, ast.AsyncFunctionDef)) and any(is_overload(d) for d in st.decorator_list) and st.name in real)]
            if len(keep) != len(body):
                body[:] = keep


def _move_back_reference_functions(parsed) -> None:
    """A module-level function of the reference list that now lives in another (new) module of the package and is imported back under its name
    (`from ._helpers import _extract_compact`) is put back where the catalogue knows it: the definition replaces the import.  The names the body uses
    must mean the same thing in both modules (same import origin, or a definition that moves along, or a name the home module can import from the new
    one); otherwise nothing is moved and the missing anchor fails the run closed."""
    import copy as _copy
    from .inline import reference_functions
    ref = reference_functions()
    by_name = {n: (t, k) for n, _p, _s, t, k in parsed}

    def sh(full: str) -> str:
        return full.replace(PKG + ".", "", 1) if full != PKG else ""

    def target_of(mod: str, is_pkg: bool, st: ast.ImportFrom) -> Optional[str]:
        if st.level == 0:
            return st.module
        parts = mod.split(".")
        if not is_pkg:
            parts = parts[:-1]
        if st.level > 1:
            parts = parts[: len(parts) - (st.level - 1)]
        return ".".join(parts + ([st.module] if st.module else []))

    def bindings(mod: str, tree: ast.AST, is_pkg: bool) -> Dict[str, Any]:
        out: Dict[str, Any] = {}
        for st in tree.body:
            if isinstance(st, ast.ImportFrom):
                tg = target_of(mod, is_pkg, st)
                for a in st.names:
                    out[a.asname or a.name] = ("from", tg, a.name)
            elif isinstance(st, ast.Import):
                for a in st.names:
                    out[a.asname or a.name.split(".")[0]] = ("import", a.name, a.asname)
            elif isinstance(st, (ast.FunctionDef, ast.AsyncFunctionDef, ast.ClassDef)):
                out[st.name] = ("def", mod, st.name)
            elif isinstance(st, (ast.Assign, ast.AnnAssign)):
                for t_ in (st.targets if isinstance(st, ast.Assign) else [st.target]):
                    for x in ast.walk(t_):
                        if isinstance(x, ast.Name):
                            out[x.id] = ("def", mod, x.id)
            elif isinstance(st, ast.If):  # `if TYPE_CHECKING:` imports
                for s2 in ast.walk(st):
                    if isinstance(s2, ast.ImportFrom):
                        tg = target_of(mod, is_pkg, s2)
                        for a in s2.names:
                            out.setdefault(a.asname or a.name, ("from", tg, a.name))
        return out

    _bcache: Dict[str, Dict[str, Any]] = {}

    def origin(b: Any) -> Any:
        """follow re-exports inside the package to the defining module"""
        seen = 0
        while b is not None and b[0] == "from" and b[1] in by_name and seen < 10:
            seen += 1
            if b[1] not in _bcache:
                t_, k_ = by_name[b[1]]
                _bcache[b[1]] = bindings(b[1], t_, k_)
            nxt = _bcache[b[1]].get(b[2])
            if nxt is None:
                return b
            if nxt[0] == "def":
                return ("from", nxt[1], nxt[2])
            b = nxt
        return b

    for mod, _p, _s, tree, is_pkg in parsed:
        here = {st.name for st in tree.body if isinstance(st, (ast.FunctionDef, ast.AsyncFunctionDef))}
        wanted = [r.split(":", 1)[1] for r in ref if r.split(":", 1)[0] == sh(mod) and "." not in r.split(":", 1)[1]]
        missing = [f for f in wanted if f not in here]
        if not missing:
            continue
        moves = []  # (import statement, alias, source module, def)
        for st in tree.body:
            if not isinstance(st, ast.ImportFrom):
                continue
            src = target_of(mod, is_pkg, st)
            if src not in by_name or src == mod:
                continue
            stree, _spk = by_name[src]
            for a in st.names:
                if a.name in missing and (a.asname in (None, a.name)) and f"{sh(src)}:{a.name}" not in ref:
                    d = next((x for x in stree.body if isinstance(x, (ast.FunctionDef, ast.AsyncFunctionDef)) and x.name == a.name), None)
                    if d is not None:
                        moves.append((st, a, src, d))
        if not moves:
            continue
        mine = bindings(mod, tree, is_pkg)
        moving = {(src, d.name) for _st, _a, src, d in moves}
        extra_imports: List[ast.stmt] = []
        ok_moves = []
        for st, a, src, d in moves:
            stree, spk = by_name[src]
            theirs = bindings(src, stree, spk)
            params = {x.arg for x in ast.walk(d.args) if isinstance(x, ast.arg)}
            stored = {x.id for x in ast.walk(d) if isinstance(x, ast.Name) and isinstance(x.ctx, ast.Store)}
            free = {x.id for x in ast.walk(d) if isinstance(x, ast.Name)} - params - stored
            fine = True
            need: List[ast.stmt] = []
            for g in sorted(free):
                b = theirs.get(g)
                if b is None:
                    continue  # a builtin
                if b[0] == "def" and (src, g) in moving:
                    continue
                if b[0] == "from" and b[1] == mod and mine.get(g, ("def", mod, g))[0] == "def" and g in mine:
                    continue  # the new module imports it from the home module
                m_ = mine.get(g)
                if m_ is not None:
                    if m_ == b or (m_[0] == "from" and b[0] == "def" and m_[1] == src and m_[2] == g) or (m_[0] == "from" and b[0] == "from" and origin(m_) == origin(b)):
                        continue
                    fine = False
                    break
                if b[0] == "from":
                    need.append(ast.ImportFrom(module=b[1], names=[ast.alias(name=b[2], asname=(g if g != b[2] else None))], level=0))
                elif b[0] == "import":
                    need.append(ast.Import(names=[ast.alias(name=b[1], asname=b[2])]))
                else:
                    need.append(ast.ImportFrom(module=src, names=[ast.alias(name=g, asname=None)], level=0))
                mine[g] = b
            if fine:
                ok_moves.append((st, a, src, d))
                extra_imports.extend(need)
        for st, a, src, d in ok_moves:
            stree, _spk = by_name[src]
            idx = tree.body.index(st) if st in tree.body else len(tree.body)
            st.names = [x for x in st.names if x is not a]
            nd = _copy.deepcopy(d)
            # definitions go after the last import of the module
            last_imp = max([i for i, x in enumerate(tree.body) if isinstance(x, (ast.Import, ast.ImportFrom))] + [idx])
            tree.body.insert(last_imp + 1, nd)
            if not st.names and st in tree.body:
                tree.body.remove(st)
            used_elsewhere = False
            for m2, _p2, _s2, t2, k2 in parsed:
                if m2 in (mod, src):
                    continue
                for y in t2.body:
                    if isinstance(y, ast.ImportFrom) and target_of(m2, k2, y) == src and any(b_.name == d.name for b_ in y.names):
                        used_elsewhere = True
            still = any(isinstance(x, ast.Name) and x.id == d.name for o in stree.body if o is not d for x in ast.walk(o))
            if not used_elsewhere and not still and d in stree.body:
                stree.body.remove(d)
        for imp in extra_imports:
            ast.fix_missing_locations(imp)
            pos = max([i for i, x in enumerate(tree.body) if isinstance(x, (ast.Import, ast.ImportFrom)) and not (isinstance(x, ast.ImportFrom) and x.module == "__future__")] + [-1])
            tree.body.insert(pos + 1, imp)
        for x in tree.body:
            ast.fix_missing_locations(x)


def _unalias_module_imports(parsed) -> None:
    """`from .. import util as _util` + `_util.to_bytes(x)` is `from ..util import to_bytes` + `to_bytes(x)`: a module of the package that is imported
    as an object and only ever used through attribute reads is replaced by direct imports of the names read (the rules and the call graph speak
    about functions, not about the spelling of the import).  Left alone when the alias is re-bound, passed around, or a read name is already bound
    to something else in the importing module."""
    mods = {n for n, _p, _s, _t, _k in parsed}
    for name, _path, _src, tree, is_pkg in parsed:
        pkg_parts = name.split(".") if is_pkg else name.split(".")[:-1]
        bound = set()
        for x in ast.walk(tree):
            if isinstance(x, ast.Name) and isinstance(x.ctx, (ast.Store, ast.Del)):
                bound.add(x.id)
            elif isinstance(x, (ast.FunctionDef, ast.AsyncFunctionDef, ast.ClassDef)):
                bound.add(x.name)
            elif isinstance(x, ast.arg):
                bound.add(x.arg)
        imported = {}
        for st in tree.body:
            if isinstance(st, ast.ImportFrom):
                for a in st.names:
                    imported[a.asname or a.name] = (st, a)
        for st in list(tree.body):
            if not isinstance(st, ast.ImportFrom) or st.level == 0:
                continue
            base = pkg_parts[: len(pkg_parts) - (st.level - 1)] if st.level - 1 <= len(pkg_parts) else None
            if base is None:
                continue
            if st.module:
                base = base + st.module.split(".")
            for a in list(st.names):
                full = ".".join(base + [a.name])
                alias = a.asname or a.name
                if full not in mods or alias in bound:
                    continue
                uses = [x for x in ast.walk(tree) if isinstance(x, ast.Name) and x.id == alias]
                attrs = [x for x in ast.walk(tree) if isinstance(x, ast.Attribute) and isinstance(x.value, ast.Name) and x.value.id == alias and isinstance(x.ctx, ast.Load)]
                if not uses or len(uses) != len(attrs):
                    continue  # the module object itself is used somewhere
                names = sorted({x.attr for x in attrs})
                if any((n_ in bound) or (n_ in imported and not _same_import(imported[n_], base + [a.name], n_, pkg_parts)) for n_ in names):
                    continue

                class R(ast.NodeTransformer):
                    def visit_Attribute(self, n: ast.Attribute):
                        self.generic_visit(n)
                        if isinstance(n.value, ast.Name) and n.value.id == alias and isinstance(n.ctx, ast.Load):
                            return ast.copy_location(ast.Name(id=n.attr, ctx=ast.Load()), n)
                        return n
                R().visit(tree)
                new_names = [n_ for n_ in names if n_ not in imported]
                rel_mod = ".".join((st.module.split(".") if st.module else []) + [a.name])
                if new_names:
                    imp = ast.copy_location(ast.ImportFrom(module=rel_mod, names=[ast.alias(name=n_, asname=None) for n_ in new_names], level=st.level), st)
                    tree.body.insert(tree.body.index(st), imp)
                    for n_ in new_names:
                        imported[n_] = (imp, imp.names[new_names.index(n_)])
                st.names.remove(a)
            if not st.names:
                tree.body.remove(st)
        ast.fix_missing_locations(tree)


def _propagate_function_aliases(parsed) -> None:
    """`encode = ECBinding._to_base64` ... `encode(x)`: a local that is bound once to a dotted name rooted at a module-level class / function / import
    and is only ever called is the dotted name itself (a local alias of a function does not change which function runs)."""
    for _name, _path, _src, tree, _k in parsed:
        roots = set()
        for st in tree.body:
            if isinstance(st, (ast.FunctionDef, ast.AsyncFunctionDef, ast.ClassDef)):
                roots.add(st.name)
            elif isinstance(st, ast.ImportFrom):
                roots.update(a.asname or a.name for a in st.names)
            elif isinstance(st, ast.Import):
                roots.update((a.asname or a.name).split(".")[0] for a in st.names)
        roots -= {x.id for x in ast.walk(tree) if isinstance(x, ast.Name) and isinstance(x.ctx, (ast.Store, ast.Del))}
        for fn in [x for x in ast.walk(tree) if isinstance(x, (ast.FunctionDef, ast.AsyncFunctionDef))]:
            params = {a.arg for a in fn.args.args + fn.args.kwonlyargs + fn.args.posonlyargs}
            stores = {}
            for x in ast.walk(fn):
                if isinstance(x, ast.Name) and isinstance(x.ctx, (ast.Store, ast.Del)):
                    stores[x.id] = stores.get(x.id, 0) + 1
            for blk_owner in ast.walk(fn):
                for fld in ("body", "orelse", "finalbody"):
                    body = getattr(blk_owner, fld, None)
                    if not (isinstance(body, list) and body and isinstance(body[0], ast.stmt)):
                        continue
                    for st in list(body):
                        if not (isinstance(st, ast.Assign) and len(st.targets) == 1 and isinstance(st.targets[0], ast.Name)):
                            continue
                        al = st.targets[0].id
                        v = st.value
                        chain = v
                        while isinstance(chain, ast.Attribute):
                            chain = chain.value
                        if not (isinstance(v, (ast.Name, ast.Attribute)) and isinstance(chain, ast.Name) and chain.id in roots and chain.id not in params and chain.id not in stores):
                            continue
                        if stores.get(al) != 1 or al in params:
                            continue
                        uses = [x for x in ast.walk(fn) if isinstance(x, ast.Name) and x.id == al and isinstance(x.ctx, ast.Load)]
                        calls = [x for x in ast.walk(fn) if isinstance(x, ast.Call) and isinstance(x.func, ast.Name) and x.func.id == al]
                        if not uses or len(uses) != len(calls):
                            continue
                        import copy as _cp
                        for c in calls:
                            c.func = ast.copy_location(_cp.deepcopy(v), c.func)
                        body.remove(st)
                        if not body:
                            body.append(ast.copy_location(ast.Pass(), st))
        ast.fix_missing_locations(tree)


def _expand_partials(parsed) -> None:
    """`_dumps = functools.partial(json.dumps, ensure_ascii=True, separators=(",", ":"))` ... `_dumps(x)`: a name bound once (module level or local)
    to a partial application whose pre-bound arguments are constants / constant displays and which is only ever called is the call with those
    arguments written out: `json.dumps(x, ensure_ascii=True, separators=(",", ":"))`."""
    import copy as _cp

    def const_like(e) -> bool:
        if isinstance(e, ast.Constant):
            return True
        if isinstance(e, (ast.Tuple, ast.List)):
            return all(const_like(x) for x in e.elts)
        return False
    for _name, _path, _src, tree, _k in parsed:
        scopes = [tree] + [x for x in ast.walk(tree) if isinstance(x, (ast.FunctionDef, ast.AsyncFunctionDef))]
        for sc in scopes:
            for st in list(sc.body):
                if not (isinstance(st, ast.Assign) and len(st.targets) == 1 and isinstance(st.targets[0], ast.Name) and isinstance(st.value, ast.Call)):
                    continue
                f = st.value.func
                if not ((isinstance(f, ast.Name) and f.id == "partial") or (isinstance(f, ast.Attribute) and f.attr == "partial" and isinstance(f.value, ast.Name) and f.value.id == "functools")):
                    continue
                pc = st.value
                if not pc.args or any(isinstance(a, ast.Starred) for a in pc.args) or any(k.arg is None for k in pc.keywords):
                    continue
                target = pc.args[0]
                root = target
                while isinstance(root, ast.Attribute):
                    root = root.value
                def stable(e) -> bool:
                    """a constant, or - inside a function - a plain name that function binds at most once and a parameter never (what the partial
                    captured when it was made is what the name still holds when the partial is called)"""
                    if const_like(e):
                        return True
                    if isinstance(e, ast.Name) and isinstance(sc, (ast.FunctionDef, ast.AsyncFunctionDef)):
                        params_ = {a_.arg for a_ in ast.walk(sc.args) if isinstance(a_, ast.arg)}
                        nst = sum(1 for x in ast.walk(sc) if isinstance(x, ast.Name) and x.id == e.id and isinstance(x.ctx, (ast.Store, ast.Del)))
                        return nst == 0 if e.id in params_ else nst <= 1
                    return False
                if not isinstance(root, ast.Name) or not all(stable(a) for a in pc.args[1:]) or not all(stable(k.value) for k in pc.keywords):
                    continue
                if isinstance(sc, (ast.FunctionDef, ast.AsyncFunctionDef)) and root is not target and not stable(root):
                    continue
                nm = st.targets[0].id
                stores = [x for x in ast.walk(tree) if isinstance(x, ast.Name) and x.id == nm and isinstance(x.ctx, (ast.Store, ast.Del))]
                uses = [x for x in ast.walk(tree) if isinstance(x, ast.Name) and x.id == nm and isinstance(x.ctx, ast.Load)]
                calls = [x for x in ast.walk(tree) if isinstance(x, ast.Call) and isinstance(x.func, ast.Name) and x.func.id == nm]
                if len(stores) != 1 or not uses or len(uses) != len(calls):
                    continue
                if any(any(k.arg is None or k.arg in {q.arg for q in pc.keywords} for k in c.keywords) or any(isinstance(a, ast.Starred) for a in c.args) for c in calls):
                    continue
                for c in calls:
                    c.func = ast.copy_location(_cp.deepcopy(target), c.func)
                    c.args = [_cp.deepcopy(a) for a in pc.args[1:]] + c.args
                    c.keywords = c.keywords + [_cp.deepcopy(k) for k in pc.keywords]
                sc.body.remove(st)
        ast.fix_missing_locations(tree)


def _same_import(entry, modparts, name, pkg_parts) -> bool:
    st, a = entry
    if a.name != name or a.asname not in (None, name) or st.level == 0:
        return False
    base = pkg_parts[: len(pkg_parts) - (st.level - 1)]
    return base + (st.module.split(".") if st.module else []) == modparts


class Program:
    def __init__(self, repo: str):
        self.repo = os.path.abspath(repo)
        self.src_root = os.path.join(self.repo, "src")
        self.pkg_root = os.path.join(self.src_root, PKG)
        if not os.path.isdir(self.pkg_root):
            raise AnalysisError(f"package directory not found: {self.pkg_root}")
        self.modules: Dict[str, Module] = {}
        self.functions: Dict[str, FunctionInfo] = {}
        self.classes: Dict[str, ClassInfo] = {}
        self._parent: Dict[int, ast.AST] = {}
        self._owner: Dict[int, FunctionInfo] = {}
        self.inlined: Dict[str, List[str]] = {}
        self._load()
        self._link_classes()

    # ------------------------------------------------------------------ loading
    def _load(self) -> None:
        files = []
        for d, _dirs, fs in os.walk(self.pkg_root):
            for f in fs:
                if f.endswith(".py"):
                    files.append(os.path.join(d, f))
        files.sort()
        h = hashlib.sha256()
        parsed = []
        for path in files:
            rel = os.path.relpath(path, self.src_root)
            parts = rel[:-3].split(os.sep)
            is_pkg = parts[-1] == "__init__"
            if is_pkg:
                parts = parts[:-1]
            name = ".".join(parts)
            with open(path, "r", encoding="utf-8") as fh:
                src = fh.read()
            h.update(rel.encode() + b"\0" + src.encode() + b"\0")
            try:
                tree = ast.parse(src, filename=path)
            except SyntaxError as e:
                raise AnalysisError(f"cannot parse {path}: {e}")
            parsed.append((name, path, src, tree, is_pkg))
        _drop_overload_stubs(parsed)
        _move_back_reference_functions(parsed)
        _unalias_module_imports(parsed)
        _propagate_function_aliases(parsed)
        _expand_partials(parsed)
        _push_down_new_bases(parsed)
        _expand_private_decorators(parsed)
        _expand_private_contextmanagers(parsed)
        _typeddict_constructors(parsed)
        # method names defined in more than one class anywhere in the package cannot be resolved through `self` by the inliner
        counts: Dict[str, int] = {}
        for _n, _p, _s, tree, _k in parsed:
            for c_ in ast.walk(tree):
                if isinstance(c_, ast.ClassDef):
                    for st_ in c_.body:
                        if isinstance(st_, (ast.FunctionDef, ast.AsyncFunctionDef)):
                            counts[st_.name] = counts.get(st_.name, 0) + 1
        ambiguous = {n for n, k in counts.items() if k > 1}
        # ... but a call through `self` / `cls` inside the defining class is only unresolvable when two of the defining classes are related by
        # inheritance (one could override the other); unrelated classes that happen to share a private method name do not matter
        bases_of: Dict[str, set] = {}
        defs_in: Dict[str, set] = {}
        for _n, _p, _s, tree, _k in parsed:
            for c_ in ast.walk(tree):
                if isinstance(c_, ast.ClassDef):
                    bn = set()
                    for b_ in c_.bases:
                        for x_ in ast.walk(b_):
                            if isinstance(x_, ast.Name):
                                bn.add(x_.id.lstrip("_"))
                            elif isinstance(x_, ast.Attribute):
                                bn.add(x_.attr.lstrip("_"))
                    bases_of.setdefault(c_.name.lstrip("_"), set()).update(bn)
                    for st_ in c_.body:
                        if isinstance(st_, (ast.FunctionDef, ast.AsyncFunctionDef)):
                            defs_in.setdefault(st_.name, set()).add(c_.name.lstrip("_"))

        def ancestors(cn: str) -> set:
            seen_, todo_ = set(), [cn]
            while todo_:
                x_ = todo_.pop()
                for b_ in bases_of.get(x_, ()):
                    if b_ not in seen_:
                        seen_.add(b_)
                        todo_.append(b_)
            return seen_
        self_ambiguous = set()
        for n_, cs_ in defs_in.items():
            if counts.get(n_, 0) > len(cs_):  # two classes of one (alias-stripped) name define it: related by construction
                self_ambiguous.add(n_)
                continue
            for c1 in cs_:
                if ancestors(c1) & (cs_ - {c1}):
                    self_ambiguous.add(n_)
        def short(nm: str) -> str:
            return nm.replace(PKG + ".", "", 1) if nm != PKG else ""
        self.renamed = normalise_names([(short(n_), t_, k_) for n_, _p, _s, t_, k_ in parsed])
        pkg_funcs, pkg_meths = package_helpers([(short(n_), t_) for n_, _p, _s, t_, _k in parsed], ambiguous)
        # the helper bodies are copied from the trees as parsed: inline in dependency-free order by working on pristine copies of the helper bodies
        import copy as _copy
        pkg_bindings = {short(n_): module_bindings(t_, short(n_), k_) for n_, _p, _s, t_, k_ in parsed}
        imported = {a.name for _n, _p, _s, t_, _k in parsed for st_ in ast.walk(t_) if isinstance(st_, ast.ImportFrom) for a in st_.names}
        pkg_funcs = {k: (_copy.deepcopy(f), _copy.deepcopy(b)) for k, (f, b) in pkg_funcs.items()}
        attr_by_module = {n_: {x.attr for x in ast.walk(t_) if isinstance(x, ast.Attribute)} for n_, _p, _s, t_, _k in parsed}
        processed = []
        for name, path, src, tree, is_pkg in parsed:
            elsewhere = set().union(*[v for k_, v in attr_by_module.items() if k_ != name]) if len(attr_by_module) > 1 else set()
            tree, inl = inline_new_helpers(tree, short(name), ambiguous, pkg_funcs, pkg_meths, is_pkg, imported | elsewhere, pkg_bindings, self_ambiguous)
            if inl:
                self.inlined[name] = inl
            processed.append((name, path, src, tree, is_pkg))
        # a private helper that is new to the rule catalogue and is no longer referenced anywhere (every call, in every module, was replaced by its body) is dead
        # code: drop it together with the imports of it, so that no rule judges a function nobody calls
        from .inline import reference_functions
        ref_ = reference_functions()
        trees_ = [t_ for _n, _p, _s, t_, _k in processed]
        for name, path, src, tree, is_pkg in processed:
            for st in list(tree.body):
                if isinstance(st, ast.FunctionDef) and st.name.startswith("_") and not st.name.startswith("__") and f"{short(name)}:{st.name}" not in ref_:
                    used = False
                    for t_ in trees_:
                        for x in ast.walk(t_):
                            if (isinstance(x, ast.Name) and x.id == st.name) or (isinstance(x, ast.Attribute) and x.attr == st.name) or \
                                    (isinstance(x, ast.Constant) and x.value == st.name):
                                used = True
                                break
                        if used:
                            break
                    if not used:
                        tree.body.remove(st)
                        self.inlined.setdefault(name, []).append("-" + st.name)
                        for t_ in trees_:
                            for imp in [y for y in ast.walk(t_) if isinstance(y, ast.ImportFrom)]:
                                if any(a.name == st.name for a in imp.names) and len(imp.names) > 1:
                                    imp.names = [a for a in imp.names if a.name != st.name]
                                elif any(a.name == st.name for a in imp.names):
                                    imp.names = [ast.alias(name="__name__", asname="_jv_removed_import")]
        # private NamedTuples that are new to the catalogue are dissolved into the tuples they name (jv/sroa.py)
        from .sroa import scalarise
        from .renames import reference as _reference
        self.scalarised = scalarise([(short(n_), t_) for n_, _p, _s, t_, _k in processed], set(_reference()[1]))
        canon_trees = [(name, path, src, canonicalise(tree, short(name)), is_pkg) for name, path, src, tree, is_pkg in processed]
        # second round: canonicalisation turns calls through tables / conditional expressions into direct calls of helpers that can be inlined now
        round2 = []
        for name, path, src, tree, is_pkg in canon_trees:
            elsewhere = set().union(*[v for k_, v in attr_by_module.items() if k_ != name]) if len(attr_by_module) > 1 else set()
            try:
                tree2, inl2 = inline_new_helpers(tree, short(name), ambiguous, pkg_funcs, pkg_meths, is_pkg, imported | elsewhere, pkg_bindings, self_ambiguous)
            except Exception:
                if os.environ.get("JV_DEBUG_INLINE"):
                    import traceback
                    traceback.print_exc()
                tree2, inl2 = tree, []
            if [x for x in inl2 if not x.startswith("-")]:
                self.inlined.setdefault(name, []).extend(x for x in inl2 if x not in self.inlined.get(name, []))
                tree2 = canonicalise(tree2, short(name))
            round2.append((name, path, src, tree2, is_pkg))
        canon_trees = round2
        if self.scalarised:
            # canonicalisation may have exposed more of them (a callee chosen by a conditional expression is now a direct call on each arm)
            scalarise([(short(n_), t_) for n_, _p, _s, t_, _k in canon_trees], set(_reference()[1]))
        for name, path, src, tree, is_pkg in canon_trees:
            m = Module(name, path, os.path.relpath(path, self.repo), src, tree, is_pkg)
            self.modules[name] = m
        self.digest = h.hexdigest()
        # a method that was inlined at self.m(...) sites must not be overridden anywhere (the inliner only sees its own module)
        removed = {n[1:] for names in self.inlined.values() for n in names if n.startswith("-")}
        if removed:
            for m_ in self.modules.values():
                for st_ in ast.walk(m_.tree):
                    if isinstance(st_, ast.ImportFrom) and any(a.name in removed for a in st_.names):
                        raise AnalysisError(f"a helper that was inlined and dropped is imported by {m_.name}")
        inl_methods = {n for names in self.inlined.values() for n in names if not n.startswith("-")}
        if inl_methods:
            count: Dict[str, int] = {}
            for m_ in self.modules.values():
                for c_ in ast.walk(m_.tree):
                    if isinstance(c_, ast.ClassDef):
                        for st_ in c_.body:
                            if isinstance(st_, (ast.FunctionDef, ast.AsyncFunctionDef)) and st_.name in inl_methods:
                                count[st_.name] = count.get(st_.name, 0) + 1
            dup = sorted(n for n, k in count.items() if k > 1 and n in self_ambiguous)
            if dup:
                raise AnalysisError(f"new method(s) {dup} are defined in more than one class: calls through self cannot be resolved by the inliner")
        for m in self.modules.values():
            self._index_module(m)

    def _abs_import(self, m: Module, node: ast.ImportFrom) -> str:
        if node.level == 0:
            return node.module or ""
        base = m.name.split(".")
        if not m.is_package:
            base = base[:-1]
        if node.level > 1:
            base = base[: len(base) - (node.level - 1)]
        if node.module:
            base = base + node.module.split(".")
        return ".".join(base)

    def _index_module(self, m: Module) -> None:
        for p in ast.walk(m.tree):
            for c in ast.iter_child_nodes(p):
                self._parent[id(c)] = p
        body_def = ast.FunctionDef(name="<module>", args=ast.arguments(posonlyargs=[], args=[], kwonlyargs=[],
                                                                        kw_defaults=[], defaults=[]),
                                   body=m.tree.body, decorator_list=[], lineno=1, col_offset=0,
                                   end_lineno=len(m.src.splitlines()) or 1, end_col_offset=0)
        m.body_fn = FunctionInfo("<module>", f"{m.name}:<module>", m, body_def)
        self.functions[m.body_fn.qualname] = m.body_fn
        m.functions.append(m.body_fn)
        for n in ast.walk(m.tree):
            self._owner[id(n)] = m.body_fn
        self._index_body(m, m.tree.body, None, None, m.body_fn)

    def _dec_name(self, d: ast.expr) -> str:
        if isinstance(d, ast.Call):
            d = d.func
        try:
            return ast.unparse(d)
        except Exception:  # pragma: no cover
            return "?"

    def _index_body(self, m: Module, body: List[ast.stmt], cls: Optional[ClassInfo],
                    parent_fn: Optional[FunctionInfo], owner: FunctionInfo) -> None:
        """index definitions in a statement list; `owner` is the function whose code these statements are"""
        for st in body:
            self._index_stmt(m, st, cls, parent_fn, owner)

    def _index_stmt(self, m: Module, st: ast.stmt, cls: Optional[ClassInfo],
                    parent_fn: Optional[FunctionInfo], owner: FunctionInfo) -> None:
        top = cls is None and parent_fn is None
        if isinstance(st, (ast.FunctionDef, ast.AsyncFunctionDef)):
            decs = [self._dec_name(d) for d in st.decorator_list]
            if cls is not None and parent_fn is None:
                qn = f"{m.name}:{cls.name}.{st.name}"
            elif parent_fn is not None:
                qn = f"{parent_fn.qualname}.<locals>.{st.name}"
            else:
                qn = f"{m.name}:{st.name}"
            fi = FunctionInfo(st.name, qn, m, st, cls if parent_fn is None else None, parent_fn, decs)
            if fi.is_overload:
                # keep for completeness but never as the resolved symbol
                fi.qualname = qn + "@overload%d" % st.lineno
                self.functions[fi.qualname] = fi
                m.functions.append(fi)
                self._mark_owner(st, fi)
                return
            if qn in self.functions and not (cls is not None and any(d.endswith(".setter") for d in decs)):
                # redefinition: last one wins, like Python
                pass
            self.functions[qn] = fi
            m.functions.append(fi)
            if cls is not None and parent_fn is None:
                cls.methods[st.name] = fi
            elif parent_fn is not None:
                parent_fn.nested[st.name] = fi
            else:
                m.symbols[st.name] = ("func", fi)
            self._mark_owner(st, fi)
            # nested definitions
            for sub in st.body:
                self._index_nested(m, sub, fi)
            return
        if isinstance(st, ast.ClassDef):
            if parent_fn is not None or cls is not None:
                return  # nested classes: not used by the repo
            ci = ClassInfo(st.name, f"{m.name}:{st.name}", m, st, list(st.bases))
            self.classes[ci.qualname] = ci
            m.classes.append(ci)
            m.symbols[st.name] = ("class", ci)
            for sub in st.body:
                if isinstance(sub, ast.Assign):
                    for t in sub.targets:
                        if isinstance(t, ast.Name):
                            ci.class_attrs[t.id] = sub.value
                elif isinstance(sub, ast.AnnAssign) and isinstance(sub.target, ast.Name):
                    ci.class_annots[sub.target.id] = sub.annotation
                    if sub.value is not None:
                        ci.class_attrs[sub.target.id] = sub.value
                self._index_stmt(m, sub, ci, None, owner)
            return
        if top or cls is None:
            if isinstance(st, ast.Import) and top:
                for a in st.names:
                    if a.asname:
                        m.symbols[a.asname] = ("import", a.name, None)
                    else:
                        m.symbols[a.name.split(".")[0]] = ("import", a.name.split(".")[0], None)
            elif isinstance(st, ast.ImportFrom) and top:
                mod = self._abs_import(m, st)
                for a in st.names:
                    m.symbols[a.asname or a.name] = ("import", mod, a.name)
            elif isinstance(st, ast.Assign) and top:
                for t in st.targets:
                    for nm in _target_names(t):
                        prev = m.symbols.get(nm)
                        if prev and prev[0] == "var":
                            prev[1].append(st.value)
                        else:
                            m.symbols[nm] = ("var", [st.value])
            elif isinstance(st, ast.AnnAssign) and top and isinstance(st.target, ast.Name) and st.value is not None:
                m.symbols[st.target.id] = ("var", [st.value])
            elif isinstance(st, (ast.If, ast.Try, ast.With, ast.For, ast.While)) and top:
                for sub in _sub_stmts(st):
                    self._index_stmt(m, sub, cls, parent_fn, owner)

    def _index_nested(self, m: Module, st: ast.stmt, fn: FunctionInfo) -> None:
        if isinstance(st, (ast.FunctionDef, ast.AsyncFunctionDef)):
            self._index_stmt(m, st, None, fn, fn)
        elif isinstance(st, ast.ClassDef):
            return
        else:
            for sub in _sub_stmts(st):
                self._index_nested(m, sub, fn)
            # local imports inside functions
            if isinstance(st, ast.ImportFrom):
                mod = self._abs_import(m, st)
                loc = fn.__dict__.setdefault("local_imports", {})
                for a in st.names:
                    loc[a.asname or a.name] = ("import", mod, a.name)
            elif isinstance(st, ast.Import):
                loc = fn.__dict__.setdefault("local_imports", {})
                for a in st.names:
                    loc[a.asname or a.name.split(".")[0]] = ("import", a.name if a.asname else a.name.split(".")[0], None)

    def _mark_owner(self, fnode: ast.AST, fi: FunctionInfo) -> None:
        # innermost owner: assign then let nested definitions overwrite
        stack = [fnode]
        while stack:
            n = stack.pop()
            for c in ast.iter_child_nodes(n):
                if isinstance(c, (ast.FunctionDef, ast.AsyncFunctionDef, ast.ClassDef)) and c is not fnode:
                    # nested def handled by its own _mark_owner call (later), but mark decorators/defaults here
                    self._owner[id(c)] = fi
                    continue
                self._owner[id(c)] = fi
                stack.append(c)

    # ------------------------------------------------------------------ classes
    def _link_classes(self) -> None:
        for ci in self.classes.values():
            for b in ci.base_exprs:
                if isinstance(b, ast.Subscript):  # Generic[...] / AsymmetricKey[A, B]
                    b = b.value
                r = self.resolve_expr(ci.module, b)
                if isinstance(r, ClassInfo):
                    ci.bases.append(r)
                    r.subclasses.append(ci)
                elif isinstance(r, Ext):
                    ci.ext_bases.append(r.name)
                else:
                    ci.ext_bases.append(ast.unparse(b))
        for ci in self.classes.values():
            ci.mro = self._c3(ci)

    def _c3(self, ci: ClassInfo) -> List[ClassInfo]:
        def merge(seqs: List[List[ClassInfo]]) -> List[ClassInfo]:
            res: List[ClassInfo] = []
            seqs = [list(s) for s in seqs if s]
            while seqs:
                for s in seqs:
                    cand = s[0]
                    if not any(cand in t[1:] for t in seqs):
                        break
                else:
                    raise AnalysisError(f"inconsistent MRO for {ci.qualname}")
                res.append(cand)
                seqs = [[x for x in s if x is not cand] for s in seqs]
                seqs = [s for s in seqs if s]
            return res
        return [ci] + merge([self._c3(b) for b in ci.bases] + [list(ci.bases)])

    # ------------------------------------------------------------------ resolution
    def module_of(self, name: str) -> Optional[Module]:
        return self.modules.get(name)

    def resolve_symbol(self, m: Module, name: str, _depth: int = 0,
                       fn: Optional[FunctionInfo] = None) -> Resolved:
        """resolve a module-level (or function-local import) name to its definition"""
        if _depth > 12:
            return None
        sym = None
        f = fn
        while f is not None and sym is None:
            sym = f.__dict__.get("local_imports", {}).get(name)
            f = f.parent
        if sym is None:
            sym = m.symbols.get(name)
        if sym is None:
            return None
        kind = sym[0]
        if kind == "func" or kind == "class":
            return sym[1]
        if kind == "var":
            return ("var", m, name)
        if kind == "import":
            modname, attr = sym[1], sym[2]
            if attr is None:
                if modname in self.modules:
                    return self.modules[modname]
                return Ext(modname)
            # from modname import attr
            if modname in self.modules:
                tm = self.modules[modname]
                sub = f"{modname}.{attr}"
                if attr not in tm.symbols and sub in self.modules:
                    return self.modules[sub]
                r = self.resolve_symbol(tm, attr, _depth + 1)
                if r is None and sub in self.modules:
                    return self.modules[sub]
                return r
            if modname == PKG or modname.startswith(PKG + "."):
                sub = f"{modname}.{attr}"
                if sub in self.modules:
                    return self.modules[sub]
                return None
            return Ext(f"{modname}.{attr}")
        return None

    def resolve_expr(self, m: Module, e: ast.expr, fn: Optional[FunctionInfo] = None) -> Resolved:
        """resolve a Name / dotted Attribute chain that denotes a module-level entity"""
        if isinstance(e, ast.Name):
            return self.resolve_symbol(m, e.id, fn=fn)
        if isinstance(e, ast.Attribute):
            base = self.resolve_expr(m, e.value, fn)
            if isinstance(base, Module):
                r = self.resolve_symbol(base, e.attr)
                if r is None:
                    sub = f"{base.name}.{e.attr}"
                    return self.modules.get(sub)
                return r
            if isinstance(base, Ext):
                return Ext(f"{base.name}.{e.attr}")
            if isinstance(base, ClassInfo):
                meth = base.lookup(e.attr)
                if meth is not None:
                    return meth
                return None
        return None

    def var_values(self, m: Module, name: str) -> List[ast.expr]:
        sym = m.symbols.get(name)
        if sym and sym[0] == "var":
            return list(sym[1])
        return []

    # ------------------------------------------------------------------ lookups used by rules
    def func(self, short: str) -> FunctionInfo:
        """anchor lookup: 'jws:deserialize_compact' or 'rfc7515.registry:JWSRegistry.get_alg'"""
        qn = short if short.startswith(PKG) else f"{PKG}.{short}"
        f = self.functions.get(qn)
        if f is None:
            raise AnalysisError(f"anchor function vanished: {short}")
        return f

    def cls(self, short: str) -> ClassInfo:
        qn = short if short.startswith(PKG) else f"{PKG}.{short}"
        c = self.classes.get(qn)
        if c is None:
            raise AnalysisError(f"anchor class vanished: {short}")
        return c

    def mod(self, short: str) -> Module:
        qn = short if short.startswith(PKG) else (f"{PKG}.{short}" if short else PKG)
        m = self.modules.get(qn)
        if m is None:
            raise AnalysisError(f"anchor module vanished: {short}")
        return m

    def public_func(self, modshort: str, name: str) -> FunctionInfo:
        """resolve a public API name through re-exports (e.g. rfc7797:serialize_compact)"""
        m = self.mod(modshort)
        r = self.resolve_symbol(m, name)
        if not isinstance(r, FunctionInfo):
            raise AnalysisError(f"anchor {modshort}.{name} does not resolve to a function")
        return r

    def owner(self, node: ast.AST) -> Optional[FunctionInfo]:
        return self._owner.get(id(node))

    def parent(self, node: ast.AST) -> Optional[ast.AST]:
        return self._parent.get(id(node))

    def all_functions(self) -> Iterator[FunctionInfo]:
        for f in self.functions.values():
            if not f.is_overload:
                yield f

    def implementations(self, base: ClassInfo, meth: str, include_abstract: bool = False) -> List[FunctionInfo]:
        """all definitions of `meth` in base and its subclasses"""
        out = []
        for c in [base] + base.all_subclasses():
            f = c.methods.get(meth)
            if f is not None and (include_abstract or not f.is_abstract):
                out.append(f)
        return out

    def snippet(self, m: Module, node: ast.AST) -> str:
        try:
            return ast.get_source_segment(m.src, node) or ast.unparse(node)
        except Exception:
            return ast.unparse(node)


def _target_names(t: ast.expr) -> List[str]:
    if isinstance(t, ast.Name):
        return [t.id]
    if isinstance(t, (ast.Tuple, ast.List)):
        out = []
        for e in t.elts:
            out.extend(_target_names(e))
        return out
    return []


def _sub_stmts(st: ast.stmt) -> List[ast.stmt]:
    out: List[ast.stmt] = []
    for fld in ("body", "orelse", "finalbody"):
        v = getattr(st, fld, None)
        if isinstance(v, list):
            out.extend(x for x in v if isinstance(x, ast.stmt))
    for h in getattr(st, "handlers", []) or []:
        out.extend(h.body)
    if isinstance(st, ast.Match):  # pragma: no cover
        for c in st.cases:
            out.extend(c.body)
    return out


def norm(node: ast.AST) -> str:
    """normalised text of a construct (position independent)"""
    try:
        return " ".join(ast.unparse(node).split())
    except Exception:  # pragma: no cover
        return type(node).__name__


def walk_no_nested(node: ast.AST) -> Iterator[ast.AST]:
    """ast.walk that does not descend into nested function/class definitions or lambdas"""
    stack = [node]
    first = True
    while stack:
        n = stack.pop()
        if not first and isinstance(n, (ast.FunctionDef, ast.AsyncFunctionDef, ast.ClassDef, ast.Lambda)):
            continue
        first = False
        yield n
        stack.extend(ast.iter_child_nodes(n))


def fn_nodes(fn: FunctionInfo) -> Iterator[ast.AST]:
    """all nodes of the function's own code (not nested defs)"""
    for st in fn.body:
        if isinstance(st, (ast.FunctionDef, ast.AsyncFunctionDef, ast.ClassDef)):
            continue
        for n in walk_no_nested_top(st):
            yield n


def walk_no_nested_top(node: ast.AST) -> Iterator[ast.AST]:
    stack = [node]
    while stack:
        n = stack.pop()
        yield n
        for c in ast.iter_child_nodes(n):
            if isinstance(c, (ast.FunctionDef, ast.AsyncFunctionDef, ast.ClassDef, ast.Lambda)):
                continue
            stack.append(c)
