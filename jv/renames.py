"""Undo consistent renames of private functions, methods and module-level names, and fold new module-level literal constants (runs on the parsed
package before jv/inline.py and jv/canon.py).

The rule catalogue addresses functions and a few module-level names of the reference tree by name (jv/spec/reference_functions.txt lists every function
with its arity and a structural hash of its body, jv/spec/reference_globals.txt every module-level name with a hash of its value).  A pull request that
renames `__sign_member` to `_sign_member`, `_re_urlsafe` to `_URLSAFE_PAYLOAD_RE`, or introduces `_AL_BITS = 64` for a magic number changes no behaviour;
here the tree is brought back to the vocabulary the rules know:

  * within one scope (a module, or a class of a module) a definition that is not in the reference list is matched with a reference name that
    disappeared from that scope: by equal structural hash (names anonymised, strings and docstrings ignored), or - one candidate each way - by equal
    arity and similar name.  The definition, every reference to it in its module, `from ... import` of it and attribute accesses to a renamed method
    are renamed back.  Unmatched new definitions stay new (and are inlined by jv/inline.py where that is exact).
  * a module-level name that is not in the reference list, is bound exactly once in its module, to a literal (number, string, bytes, bool, None,
    tuples of those), is replaced by that literal at every use (also in modules that import it).

Positions of all nodes are kept.  On the unchanged tree nothing matches (every name is in the lists)."""
from __future__ import annotations
import ast
import copy
import difflib
import hashlib
import os
from typing import Dict, List, Optional, Set, Tuple

_HERE = os.path.dirname(os.path.abspath(__file__))


def structural_hash(fn: ast.AST) -> str:
    """hash of a function body with identifiers anonymised by first occurrence, docstrings / annotations / string contents ignored"""
    names: Dict[str, int] = {}

    def nm(x: str) -> str:
        if x not in names:
            names[x] = len(names)
        return f"n{names[x]}"

    class A(ast.NodeTransformer):
        def visit_Name(self, n: ast.Name):
            return ast.Name(id=nm(n.id), ctx=n.ctx)

        def visit_arg(self, n: ast.arg):
            return ast.arg(arg=nm(n.arg), annotation=None)

        def visit_Constant(self, n: ast.Constant):
            if isinstance(n.value, str):
                return ast.Constant(value="S")
            return n

        def visit_JoinedStr(self, n: ast.JoinedStr):
            return ast.Constant(value="S")

        def visit_AnnAssign(self, n: ast.AnnAssign):
            self.generic_visit(n)
            if n.value is None:
                return None
            return ast.Assign(targets=[n.target], value=n.value)

    body = list(getattr(fn, "body", []))
    if body and isinstance(body[0], ast.Expr) and isinstance(body[0].value, ast.Constant) and isinstance(body[0].value.value, str):
        body = body[1:]
    args = getattr(fn, "args", None)
    mod = ast.Module(body=[A().visit(copy.deepcopy(ast.Module(body=body, type_ignores=[])))], type_ignores=[])
    sig = ",".join(nm(a.arg) for a in (args.args + args.kwonlyargs)) if args is not None else ""
    return hashlib.sha256((sig + "|" + ast.dump(mod, annotate_fields=False)).encode()).hexdigest()[:16]


def value_hash(v: ast.AST) -> str:
    return hashlib.sha256(ast.dump(v, annotate_fields=False).encode()).hexdigest()[:16]


def arity(fn: ast.AST) -> int:
    a = fn.args  # type: ignore[attr-defined]
    return len(a.args) + len(a.kwonlyargs)


_REF_F: Optional[Dict[str, Tuple[int, str]]] = None
_REF_G: Optional[Dict[str, str]] = None


def reference() -> Tuple[Dict[str, Tuple[int, str]], Dict[str, str]]:
    global _REF_F, _REF_G
    if _REF_F is None:
        _REF_F = {}
        with open(os.path.join(_HERE, "spec", "reference_functions.txt")) as fh:
            for ln in fh:
                if ln.strip() and not ln.startswith("#"):
                    p = ln.rstrip("\n").split("\t")
                    _REF_F[p[0]] = (int(p[1]), p[2]) if len(p) >= 3 else (-1, "")
        _REF_G = {}
        gp = os.path.join(_HERE, "spec", "reference_globals.txt")
        if os.path.exists(gp):
            with open(gp) as fh:
                for ln in fh:
                    if ln.strip() and not ln.startswith("#"):
                        p = ln.rstrip("\n").split("\t")
                        _REF_G[p[0]] = p[1] if len(p) > 1 else ""
    return _REF_F, _REF_G  # type: ignore[return-value]


def scopes(tree: ast.Module, module: str):
    """(scope key, {name: FunctionDef}) for the module level and every top-level or nested class"""
    out = [(f"{module}:", {st.name: st for st in tree.body if isinstance(st, (ast.FunctionDef, ast.AsyncFunctionDef))})]
    for c in ast.walk(tree):
        if isinstance(c, ast.ClassDef):
            out.append((f"{module}:{c.name}.", {st.name: st for st in c.body if isinstance(st, (ast.FunctionDef, ast.AsyncFunctionDef))}))
    return out


def module_globals(tree: ast.Module) -> Dict[str, List[ast.AST]]:
    """module-level simple-name bindings: name -> list of value expressions (assignments at module level only)"""
    out: Dict[str, List[ast.AST]] = {}
    for st in tree.body:
        if isinstance(st, ast.Assign) and len(st.targets) == 1 and isinstance(st.targets[0], ast.Name):
            out.setdefault(st.targets[0].id, []).append(st.value)
        elif isinstance(st, ast.AnnAssign) and isinstance(st.target, ast.Name) and st.value is not None:
            out.setdefault(st.target.id, []).append(st.value)
    return out


def _similar(a: str, b: str) -> bool:
    x, y = a.strip("_").lower(), b.strip("_").lower()
    return x == y or difflib.SequenceMatcher(None, x, y).ratio() >= 0.45


_BUILTIN_TYPES = {"int", "float", "str", "bytes", "bool", "list", "tuple", "dict", "set", "frozenset", "bytearray", "complex"}


def _literal(v: ast.AST) -> bool:
    if isinstance(v, ast.Constant):
        return True
    if isinstance(v, ast.UnaryOp) and isinstance(v.op, (ast.USub, ast.UAdd)) and isinstance(v.operand, ast.Constant) and isinstance(v.operand.value, (int, float)):
        return True
    if isinstance(v, ast.Tuple):
        return all(_literal(e) or (isinstance(e, ast.Name) and e.id in _BUILTIN_TYPES) for e in v.elts)
    return False


def _tuple_of_imports(v: ast.AST, tree: ast.Module, stores: Dict[str, int]) -> bool:
    """a tuple display whose elements are names bound by an import (or a class statement) of this module and never re-bound: as constant as a literal"""
    if not (isinstance(v, ast.Tuple) and v.elts and all(isinstance(e, ast.Name) for e in v.elts)):
        return False
    bound = set()
    for st in tree.body:
        if isinstance(st, (ast.Import, ast.ImportFrom)):
            bound |= {a.asname or a.name.split(".")[0] for a in st.names}
        elif isinstance(st, ast.ClassDef):
            bound.add(st.name)
    return all(e.id in bound and stores.get(e.id, 0) == 0 for e in v.elts)


def _fold_arith(e: ast.AST, known: Dict[str, ast.AST]) -> Optional[ast.AST]:
    import operator
    ops = {ast.Add: operator.add, ast.Sub: operator.sub, ast.Mult: operator.mul, ast.FloorDiv: operator.floordiv, ast.Pow: operator.pow, ast.LShift: operator.lshift}

    def ev(x):
        if isinstance(x, ast.Constant) and isinstance(x.value, (int, bytes, str)) and not isinstance(x.value, bool):
            return x.value
        if isinstance(x, ast.Name) and x.id in known and isinstance(known[x.id], ast.Constant) and isinstance(known[x.id].value, (int, bytes, str)) \
                and not isinstance(known[x.id].value, bool):
            return known[x.id].value
        if isinstance(x, ast.Call) and isinstance(x.func, ast.Attribute) and isinstance(x.func.value, ast.Name) and x.func.value.id == "struct" and x.func.attr == "calcsize" \
                and len(x.args) == 1 and not x.keywords:
            f_ = ev(x.args[0])
            if isinstance(f_, str):
                import struct as _struct
                try:
                    return _struct.calcsize(f_)  # (a property of the format text, the same on every platform for the explicit-order formats)
                except Exception:
                    return None
            return None
        if isinstance(x, ast.Call) and isinstance(x.func, ast.Name) and x.func.id == "len" and len(x.args) == 1 and not x.keywords:
            a = ev(x.args[0])
            return len(a) if isinstance(a, (bytes, str)) else None
        if isinstance(x, ast.BinOp) and type(x.op) in ops:
            a, b = ev(x.left), ev(x.right)
            if a is None or b is None or (isinstance(x.op, (ast.Pow, ast.LShift)) and not (isinstance(b, int) and 0 <= b <= 64)) or (isinstance(x.op, ast.FloorDiv) and b == 0):
                return None
            if isinstance(a, (bytes, str)) or isinstance(b, (bytes, str)):
                # octet / text constants: repetition by a small count and concatenation of the same kind only
                if isinstance(x.op, ast.Mult) and ((isinstance(a, (bytes, str)) and isinstance(b, int)) or (isinstance(a, int) and isinstance(b, (bytes, str)))):
                    n_ = b if isinstance(b, int) else a
                    return (a * b) if 0 <= n_ <= 64 else None
                if isinstance(x.op, ast.Add) and type(a) is type(b):
                    return a + b
                return None
            return ops[type(x.op)](a, b)
        if isinstance(x, ast.UnaryOp) and isinstance(x.op, ast.USub):
            a = ev(x.operand)
            return None if a is None else -a
        return None
    if not any(isinstance(y, ast.Name) for y in ast.walk(e)):
        return None  # plain literal arithmetic stays as written (`2 ** 31 - 1` is what the reference tree has)
    v = ev(e)
    if isinstance(v, (bytes, str)) and isinstance(e, (ast.Name, ast.Constant)):
        return None
    return None if v is None else ast.copy_location(ast.Constant(value=v), e)


def normalise(parsed: List[Tuple[str, ast.Module, bool]]) -> Dict[str, List[str]]:
    """parsed: (module short name, tree, is_package).  Rewrites the trees in place; returns a log per module."""
    ref_f, ref_g = reference()
    log: Dict[str, List[str]] = {}
    fn_renames: Dict[str, Dict[str, str]] = {}  # module -> {new module-level function / global name: old}
    meth_renames: Dict[str, str] = {}  # new method name -> old (package-wide, only when unambiguous)
    consts: Dict[str, Dict[str, ast.AST]] = {}  # module -> {new constant name: literal}
    trees = {m: t for m, t, _k in parsed}
    for module, tree, _k in parsed:
        # ---- functions and methods
        for key, defs in scopes(tree, module):
            want = {q[len(key):] for q in ref_f if q.startswith(key) and "." not in q[len(key):] and "<locals>" not in q}
            missing = sorted(want - set(defs))
            new = sorted(set(defs) - want)
            if not missing or not new:
                continue
            pairs: Dict[str, str] = {}
            for n in new:
                h = structural_hash(defs[n])
                cands = [m_ for m_ in missing if ref_f[key + m_][1] == h and m_ not in pairs.values()]
                if len(cands) == 1:
                    pairs[n] = cands[0]
            rest_new = [n for n in new if n not in pairs]
            rest_missing = [m_ for m_ in missing if m_ not in pairs.values()]
            for n in rest_new:
                cands = [m_ for m_ in rest_missing if ref_f[key + m_][0] == arity(defs[n]) and _similar(n, m_)]
                if len(cands) == 1 and sum(1 for n2 in rest_new if ref_f[key + cands[0]][0] == arity(defs[n2]) and _similar(n2, cands[0])) == 1:
                    pairs[n] = cands[0]
            # one function gone, one of the same arity arrived in the same scope, both private: a rename with edits (`_hmac` -> `_compute_tag`)
            rest_new = [n for n in new if n not in pairs]
            rest_missing = [m_ for m_ in missing if m_ not in pairs.values()]
            if len(rest_new) == 1 and len(rest_missing) == 1 and rest_new[0].startswith("_") and rest_missing[0].startswith("_") \
                    and ref_f[key + rest_missing[0]][0] == arity(defs[rest_new[0]]):
                pairs[rest_new[0]] = rest_missing[0]
            for n, old in pairs.items():
                defs[n].name = old
                log.setdefault(module, []).append(f"{key}{n} -> {old}")
                if key.endswith(":"):
                    fn_renames.setdefault(module, {})[n] = old
                else:
                    meth_renames[n] = old if meth_renames.get(n, old) == old else "\0"
        # ---- module-level names
        g = module_globals(tree)
        wantg = {q.split(":", 1)[1] for q in ref_g if q.startswith(module + ":")}
        stores: Dict[str, int] = {}
        for x in ast.walk(tree):
            if isinstance(x, ast.Name) and isinstance(x.ctx, (ast.Store, ast.Del)):
                stores[x.id] = stores.get(x.id, 0) + 1
        missing_g = sorted(wantg - set(g) - {st.name for st in tree.body if isinstance(st, (ast.FunctionDef, ast.ClassDef, ast.AsyncFunctionDef))})
        new_g = sorted(n for n in g if n not in wantg)
        for n in new_g:
            if len(g[n]) != 1 or stores.get(n, 0) != 1:
                continue
            h = value_hash(g[n][0])
            cands = [m_ for m_ in missing_g if ref_g.get(f"{module}:{m_}") == h]
            if len(cands) == 1:
                fn_renames.setdefault(module, {})[n] = cands[0]
                log.setdefault(module, []).append(f"{module}:{n} -> {cands[0]} (module-level name)")
                missing_g.remove(cands[0])
            elif _literal(g[n][0]) or _tuple_of_imports(g[n][0], tree, stores):
                consts.setdefault(module, {})[n] = g[n][0]
                log.setdefault(module, []).append(f"{module}:{n} = literal (folded)")
            else:
                # arithmetic over literals and constants folded just before (`_ROUND_UP = _BITS - 1`)
                v = _fold_arith(g[n][0], consts.get(module, {}))
                if v is not None:
                    consts.setdefault(module, {})[n] = v
                    log.setdefault(module, []).append(f"{module}:{n} = constant expression (folded)")
        # ... whatever their order in the file (a constant may use one that is spelled later in the alphabet)
        for _round in range(3):
            for n in new_g:
                if n in consts.get(module, {}) or n in fn_renames.get(module, {}) or len(g[n]) != 1 or stores.get(n, 0) != 1:
                    continue
                v = _fold_arith(g[n][0], consts.get(module, {}))
                if v is not None:
                    consts.setdefault(module, {})[n] = v
                    log.setdefault(module, []).append(f"{module}:{n} = constant expression (folded)")
    meth_renames = {k: v for k, v in meth_renames.items() if v != "\0"}
    # ---- new private class-level literal constants (`_IV_SIZE = 96` in a class body, read as self._IV_SIZE / cls._IV_SIZE / Class._IV_SIZE): folded when the
    # attribute name is bound exactly once in the whole package (no subclass can give it another value, nothing stores to it)
    attr_binds: Dict[str, int] = {}
    for module, tree, _k in parsed:
        for x in ast.walk(tree):
            if isinstance(x, ast.ClassDef):
                for st in x.body:
                    tg = st.targets[0] if isinstance(st, ast.Assign) and len(st.targets) == 1 else (st.target if isinstance(st, ast.AnnAssign) else None)
                    if isinstance(tg, ast.Name):
                        attr_binds[tg.id] = attr_binds.get(tg.id, 0) + 1
            elif isinstance(x, ast.Attribute) and isinstance(x.ctx, (ast.Store, ast.Del)):
                attr_binds[x.attr] = attr_binds.get(x.attr, 0) + 1
            elif isinstance(x, ast.Call) and isinstance(x.func, ast.Name) and x.func.id in ("setattr", "delattr") and len(x.args) >= 2 and isinstance(x.args[1], ast.Constant):
                attr_binds[str(x.args[1].value)] = attr_binds.get(str(x.args[1].value), 0) + 1
    class_consts: Dict[str, ast.AST] = {}
    holder_consts: Dict[str, Dict[str, ast.AST]] = {}  # constants class name -> {NAME: literal}
    class_consts_local: Dict[str, Dict[str, ast.AST]] = {}
    for module, tree, _k in parsed:
        for c in ast.walk(tree):
            if isinstance(c, ast.ClassDef):
                for st in c.body:
                    tg = st.targets[0] if isinstance(st, ast.Assign) and len(st.targets) == 1 else (st.target if isinstance(st, ast.AnnAssign) else None)
                    v = getattr(st, "value", None)
                    if isinstance(tg, ast.Name) and tg.id.startswith("_") and not tg.id.startswith("__") and v is not None and _literal(v) \
                            and f"{module}:{c.name}.{tg.id}" not in ref_g and attr_binds.get(tg.id) == 1:
                        class_consts[tg.id] = v
                        log.setdefault(module, []).append(f"{module}:{c.name}.{tg.id} = literal (folded)")
                    elif isinstance(tg, ast.Name) and not tg.id.startswith("_") and v is not None and _literal(v) and c.name.startswith("_") and not c.bases \
                            and f"{module}:{c.name}.{tg.id}" not in ref_g and not any(q.startswith(f"{module}:{c.name}.") for q in ref_g) \
                            and not any(isinstance(m_, (ast.FunctionDef, ast.AsyncFunctionDef)) for m_ in c.body):
                        # a new private class that only holds named constants (`class _Claim: AUD = "aud"`), read as `_Claim.AUD`
                        holder_consts.setdefault(c.name, {})[tg.id] = v
                        log.setdefault(module, []).append(f"{module}:{c.name}.{tg.id} = literal of a constants class (folded)")
                    elif isinstance(tg, ast.Name) and tg.id.startswith("_") and not tg.id.startswith("__") and v is not None \
                            and f"{module}:{c.name}.{tg.id}" not in ref_g and attr_binds.get(tg.id) == 1:
                        # a tuple of names this module imports (`_sign_key_types = (Ed25519PrivateKey, Ed448PrivateKey)`): as constant as a literal, but
                        # the names mean something in this module only
                        mstores: Dict[str, int] = {}
                        for x in ast.walk(tree):
                            if isinstance(x, ast.Name) and isinstance(x.ctx, (ast.Store, ast.Del)):
                                mstores[x.id] = mstores.get(x.id, 0) + 1
                        if _tuple_of_imports(v, tree, mstores):
                            class_consts_local.setdefault(module, {})[tg.id] = v
                            log.setdefault(module, []).append(f"{module}:{c.name}.{tg.id} = tuple of imported names (folded)")
    # a constants class is only folded when its name is unique in the package and nothing stores to it
    seen_cls: Dict[str, int] = {}
    for module, tree, _k in parsed:
        for c in ast.walk(tree):
            if isinstance(c, ast.ClassDef):
                seen_cls[c.name] = seen_cls.get(c.name, 0) + 1
    holder_consts = {k: v for k, v in holder_consts.items() if seen_cls.get(k) == 1}
    for module, tree, _k in parsed:
        for x in ast.walk(tree):
            if isinstance(x, ast.Attribute) and isinstance(x.ctx, (ast.Store, ast.Del)) and isinstance(x.value, ast.Name) and x.value.id in holder_consts:
                holder_consts.pop(x.value.id, None)
    if holder_consts:
        for module, tree, _k in parsed:
            class HC(ast.NodeTransformer):
                def visit_Attribute(self, n: ast.Attribute):
                    self.generic_visit(n)
                    if isinstance(n.ctx, ast.Load) and isinstance(n.value, ast.Name) and n.value.id in holder_consts and n.attr in holder_consts[n.value.id]:
                        return ast.copy_location(copy.deepcopy(holder_consts[n.value.id][n.attr]), n)
                    return n
            HC().visit(tree)
    if class_consts or class_consts_local:
        for module, tree, _k in parsed:
            cc = dict(class_consts)
            cc.update(class_consts_local.get(module, {}))

            class RC(ast.NodeTransformer):
                def visit_Attribute(self, n: ast.Attribute):
                    self.generic_visit(n)
                    if n.attr in cc and isinstance(n.ctx, ast.Load) and isinstance(n.value, ast.Name):
                        return ast.copy_location(copy.deepcopy(cc[n.attr]), n)
                    return n
            RC().visit(tree)

    # ---- apply
    def abs_from(module: str, is_pkg: bool, node: ast.ImportFrom) -> Optional[str]:
        if node.level == 0:
            m = node.module or ""
            return m[len("joserfc."):] if m.startswith("joserfc.") else ("" if m == "joserfc" else None)
        base = module.split(".") if module else []
        if not is_pkg and base:
            base = base[:-1]
        if node.level > 1:
            base = base[: len(base) - (node.level - 1)]
        if node.module:
            base = base + node.module.split(".")
        return ".".join(base)

    for module, tree, is_pkg in parsed:
        local_map = dict(fn_renames.get(module, {}))
        local_consts = dict(consts.get(module, {}))
        # what this module imports from modules with renames / constants
        for st in tree.body:
            if isinstance(st, ast.ImportFrom):
                src = abs_from(module, is_pkg, st)
                if src is None:
                    continue
                for a in st.names:
                    if a.asname is None and a.name in fn_renames.get(src, {}):
                        local_map[a.name] = fn_renames[src][a.name]
                        a.name = fn_renames[src][a.name]
                    elif a.name in fn_renames.get(src, {}):
                        a.name = fn_renames[src][a.name]
                    if a.name in consts.get(src, {}):
                        local_consts[a.asname or a.name] = consts[src][a.name]
        if not local_map and not local_consts and not meth_renames:
            continue
        shadow = set()  # names re-bound locally somewhere in the module are left alone for constant folding
        for x in ast.walk(tree):
            if isinstance(x, ast.arg) and x.arg in local_consts:
                shadow.add(x.arg)

        class R(ast.NodeTransformer):
            def visit_Name(self, n: ast.Name):
                if n.id in local_map:
                    return ast.copy_location(ast.Name(id=local_map[n.id], ctx=n.ctx), n)
                if n.id in local_consts and isinstance(n.ctx, ast.Load) and n.id not in shadow:
                    return ast.copy_location(copy.deepcopy(local_consts[n.id]), n)
                return n

            def visit_Attribute(self, n: ast.Attribute):
                self.generic_visit(n)
                if n.attr in meth_renames:
                    n.attr = meth_renames[n.attr]
                return n

        R().visit(tree)
        # the folded constant's own definition stays (`NAME = literal`): harmless
    return log
