"""S10 - byte-term normaliser for the few sites where an RFC fixes an octet layout.

Turns an expression into a term over
  CAT(parts…)  CONST(value)  LEAF(text)  B64U(t)  B64J(t)  B64D(t)  LEN32(t)  U32(e)  U64BITS(t)  SLICE(t, lo, hi)
  ALT(cond, a, b)  CALL(name, args…)
with local single-assignment inlining, `+` chains and b"x".join([...]) flattened, several recognisers per semantic
operator and repo helpers inlined.  Text-level wrappers that do not change octets (to_bytes / to_str / .encode /
.decode of ASCII material) are stripped."""
from __future__ import annotations
import ast
from typing import Any, Dict, List, Optional, Tuple

from .program import FunctionInfo, norm

Term = Tuple[Any, ...]
TRANSPARENT_FUNCS = {"to_bytes", "to_str", "bytes", "str"}
TRANSPARENT_METHODS = {"encode", "decode"}
INLINE_LIMIT = 6


class Terms:
    def __init__(self, eng):
        self.eng = eng

    # ------------------------------------------------------------------ public
    def of(self, fn: FunctionInfo, e: ast.AST, env: Optional[Dict[str, Term]] = None, depth: int = 0) -> Term:
        env = env or {}
        return self._t(fn, e, env, depth)

    # ------------------------------------------------------------------ helpers
    def _cat(self, parts: List[Term]) -> Term:
        flat: List[Term] = []
        for p in parts:
            if p[0] == "CAT":
                flat.extend(p[1])
            else:
                flat.append(p)
        # merge adjacent constants
        merged: List[Term] = []
        for p in flat:
            if merged and p[0] == "CONST" and merged[-1][0] == "CONST" and type(p[1]) is type(merged[-1][1]):
                merged[-1] = ("CONST", merged[-1][1] + p[1])
            else:
                merged.append(p)
        # the empty string is the unit of concatenation
        if len(merged) > 1:
            merged = [p for p in merged if not (p[0] == "CONST" and len(p[1]) == 0)] or [merged[0]]
        if len(merged) == 1:
            return merged[0]
        return ("CAT", tuple(merged))

    def _single_def(self, fn: FunctionInfo, name: str) -> Optional[ast.AST]:
        defs = self.eng.flow._defs(fn).get(name, [])
        assigns = [d for d in defs if d[0] == "assign"]
        if len(defs) == 1 and len(assigns) == 1 and not assigns[0][2] and isinstance(assigns[0][1], ast.AST):
            return assigns[0][1]
        return None

    def _defs(self, fn: FunctionInfo, name: str) -> List[Tuple[ast.AST, tuple]]:
        return [(d[1], d[2]) for d in self.eng.flow._defs(fn).get(name, []) if d[0] == "assign" and isinstance(d[1], ast.AST)]

    def _def_stmts(self, fn: FunctionInfo, name: str):
        """(plain assignments, self-referential updates, other) in source order"""
        from .program import fn_nodes
        plain, upd, other = [], [], []
        for n in fn_nodes(fn):
            if isinstance(n, ast.Assign) and len(n.targets) == 1 and isinstance(n.targets[0], ast.Name) and n.targets[0].id == name:
                if any(isinstance(x, ast.Name) and x.id == name for x in ast.walk(n.value)):
                    upd.append((n, n.value))
                else:
                    plain.append((n, n.value))
            elif isinstance(n, ast.AnnAssign) and isinstance(n.target, ast.Name) and n.target.id == name and n.value is not None:
                plain.append((n, n.value))
            elif isinstance(n, ast.AugAssign) and isinstance(n.target, ast.Name) and n.target.id == name and isinstance(n.op, ast.Add):
                upd.append((n, ast.BinOp(left=ast.Name(id=name, ctx=ast.Load()), op=ast.Add(), right=n.value)))
            elif isinstance(n, (ast.Assign, ast.For, ast.With, ast.AugAssign, ast.comprehension)):
                tg = n.targets if isinstance(n, ast.Assign) else ([n.target] if hasattr(n, "target") else [])
                for t in tg:
                    if isinstance(t, (ast.Tuple, ast.List)) and any(isinstance(x, ast.Name) and x.id == name for x in ast.walk(t)):
                        other.append(n)
                    elif isinstance(n, (ast.For, ast.comprehension)) and isinstance(t, ast.Name) and t.id == name:
                        other.append(n)
        key = lambda p: (p[0].lineno, p[0].col_offset)
        return sorted(plain, key=key), sorted(upd, key=key), other

    def _cond(self, fn, test: ast.AST, env) -> Optional[bool]:
        if isinstance(test, ast.UnaryOp) and isinstance(test.op, ast.Not):
            v = self._cond(fn, test.operand, env)
            return None if v is None else (not v)
        if isinstance(test, ast.Name) and test.id in env:
            t = env[test.id]
            if t[0] == "NUM":
                return bool(t[1])
            if t[0] == "CONST":
                return bool(t[1])
        return None

    def _alt(self, cond: Term, a: Term, b: Term) -> Term:
        """ALT(c, a, b); when one alternative is the other plus an appended part the result is the common part followed by an optional part
        (`x = P + Q if c else P` is `x = P; if c: x = x + Q`)"""
        def parts(t):
            return list(t[1]) if t[0] == "CAT" else [t]
        pa, pb = parts(a), parts(b)
        if len(pa) > len(pb) and pa[:len(pb)] == pb:
            return self._cat(pb + [("OPT", cond, self._cat(pa[len(pb):]))])
        if len(pb) > len(pa) and pb[:len(pa)] == pa:
            return self._cat(pa + [("OPT", ("NOT", cond), self._cat(pb[len(pa):]))])
        return ("ALT", cond, a, b)

    def _name(self, fn: FunctionInfo, name: str, env, depth) -> Term:
        plain, upd, other = self._def_stmts(fn, name)
        P = self.eng.prog
        if other and not plain and not upd:
            defs = self._defs(fn, name)
            if len(defs) == 1 and defs[0][1] and defs[0][1][0][0] == "idx":
                return ("IDX", self._t(fn, defs[0][0], env, depth + 1), defs[0][1][0][1])
            return ("LEAF", name)
        if other or not plain:
            return ("LEAF", name)
        base: Optional[Term] = None
        if len(plain) == 1:
            base = self._t(fn, plain[0][1], env, depth + 1)
        elif len(plain) == 2:
            s1, s2 = plain[0][0], plain[1][0]
            i1, i2 = P.parent(s1), P.parent(s2)
            if isinstance(i1, ast.If) and i1 is i2 and ((s1 in i1.body and s2 in i1.orelse) or (s2 in i1.body and s1 in i1.orelse)):
                # (source order says nothing about which branch a statement is in once if/else were canonicalised)
                pb, po = (plain[0], plain[1]) if s1 in i1.body else (plain[1], plain[0])
                c = self._cond(fn, i1.test, env)
                a, b = self._t(fn, pb[1], env, depth + 1), self._t(fn, po[1], env, depth + 1)
                base = a if c is True else (b if c is False else self._alt(("LEAF", norm(i1.test)), a, b))
            elif isinstance(i2, ast.If) and s2 in i2.body and not i2.orelse and P.parent(s1) is P.parent(i2):
                # x = A ; if c: x = B
                c = self._cond(fn, i2.test, env)
                a, b = self._t(fn, plain[0][1], env, depth + 1), self._t(fn, plain[1][1], env, depth + 1)
                base = b if c is True else (a if c is False else self._alt(("LEAF", norm(i2.test)), b, a))
        if base is None:
            return ("LEAF", name)
        for st, rhs in upd:
            env2 = dict(env)
            env2[name] = base
            t2 = self._t(fn, rhs, env2, depth + 1)
            par = P.parent(st)
            if isinstance(par, ast.If) and st in par.body:
                c = self._cond(fn, par.test, env)
                if c is True:
                    base = t2
                elif c is False:
                    pass
                else:
                    # appended part is optional
                    if t2[0] == "CAT" and base[0] != "CAT" and t2[1][0] == base:
                        base = self._cat([base, ("OPT", ("LEAF", norm(par.test)), self._cat(list(t2[1][1:])))])
                    elif t2[0] == "CAT" and base[0] == "CAT" and t2[1][:len(base[1])] == base[1]:
                        base = self._cat([base, ("OPT", ("LEAF", norm(par.test)), self._cat(list(t2[1][len(base[1]):])))])
                    else:
                        base = ("ALT", ("LEAF", norm(par.test)), t2, base)
            else:
                base = t2
        return base

    # ------------------------------------------------------------------ core
    def _t(self, fn: FunctionInfo, e: ast.AST, env: Dict[str, Term], depth: int) -> Term:
        if depth > 24:
            return ("LEAF", norm(e))
        if isinstance(e, ast.Constant):
            if isinstance(e.value, str):
                return ("CONST", e.value.encode("utf-8", "surrogatepass"))
            if isinstance(e.value, bytes):
                return ("CONST", e.value)
            return ("NUM", e.value)
        if isinstance(e, ast.Name):
            if e.id in env:
                return env[e.id]
            if e.id in fn.params:
                return ("LEAF", e.id)
            return self._name(fn, e.id, env, depth)
        if isinstance(e, ast.BinOp) and isinstance(e.op, ast.Add):
            return self._cat([self._t(fn, e.left, env, depth + 1), self._t(fn, e.right, env, depth + 1)])
        if isinstance(e, ast.BinOp):
            return ("ARITH", type(e.op).__name__, self._t(fn, e.left, env, depth + 1), self._t(fn, e.right, env, depth + 1))
        if isinstance(e, ast.Subscript) and isinstance(e.slice, ast.Slice):
            lo = self._t(fn, e.slice.lower, env, depth + 1) if e.slice.lower is not None else None
            hi = self._t(fn, e.slice.upper, env, depth + 1) if e.slice.upper is not None else None
            return ("SLICE", self._t(fn, e.value, env, depth + 1), lo, hi)
        if isinstance(e, ast.Subscript):
            return ("LEAF", norm(e))
        if isinstance(e, ast.Attribute):
            return ("LEAF", norm(e))
        if isinstance(e, ast.IfExp):
            return ("ALT", ("LEAF", norm(e.test)), self._t(fn, e.body, env, depth + 1), self._t(fn, e.orelse, env, depth + 1))
        if isinstance(e, ast.BoolOp) and len(e.values) == 2:
            # `a or b` / `a and b` evaluate to one of their operands
            return ("ALT", ("LEAF", norm(e.values[0])), self._t(fn, e.values[0], env, depth + 1), self._t(fn, e.values[1], env, depth + 1))
        if isinstance(e, ast.JoinedStr):
            parts: List[Term] = []
            for v in e.values:
                if isinstance(v, ast.Constant):
                    parts.append(("CONST", str(v.value).encode()))
                elif isinstance(v, ast.FormattedValue):
                    parts.append(self._t(fn, v.value, env, depth + 1))
            return self._cat(parts)
        if isinstance(e, ast.Call):
            return self._call(fn, e, env, depth)
        return ("LEAF", norm(e))

    def _call(self, fn: FunctionInfo, e: ast.Call, env, depth) -> Term:
        f = e.func
        name = f.attr if isinstance(f, ast.Attribute) else (f.id if isinstance(f, ast.Name) else "?")
        site = self.eng.cg.site_of.get(id(e))
        ext = site.ext if site is not None else []
        callees = site.callees if site is not None else []
        # b".".join([...])
        if isinstance(f, ast.Attribute) and f.attr == "join" and len(e.args) == 1 and isinstance(e.args[0], (ast.List, ast.Tuple)):
            sep = self._t(fn, f.value, env, depth + 1)
            parts: List[Term] = []
            for i, x in enumerate(e.args[0].elts):
                if i:
                    parts.append(sep)
                parts.append(self._t(fn, x, env, depth + 1))
            return self._cat(parts)
        # transparent wrappers
        if name in TRANSPARENT_FUNCS and isinstance(f, ast.Name) and e.args and (not callees or all(c.short in ("util:to_bytes", "util:to_str") for c in callees)):
            return self._t(fn, e.args[0], env, depth + 1)
        if isinstance(f, ast.Attribute) and f.attr in TRANSPARENT_METHODS and not callees:
            return self._t(fn, f.value, env, depth + 1)
        # codecs
        if any(c.short == "util:urlsafe_b64encode" for c in callees) or any(x.endswith("base64.urlsafe_b64encode") for x in ext):
            return ("B64U", self._t(fn, e.args[0], env, depth + 1))
        if any(c.short == "util:json_b64encode" for c in callees):
            return ("B64J", self._t(fn, e.args[0], env, depth + 1))
        if any(c.short == "util:urlsafe_b64decode" for c in callees):
            return ("B64D", self._t(fn, e.args[0], env, depth + 1))
        # struct.pack(">I", x)
        if any(x == "struct.pack" for x in ext) and len(e.args) == 2 and isinstance(e.args[0], ast.Constant) and e.args[0].value == ">I":
            x = e.args[1]
            if isinstance(x, ast.Call) and isinstance(x.func, ast.Name) and x.func.id == "len" and x.args:
                return ("LEN32", self._t(fn, x.args[0], env, depth + 1))
            return ("U32", self._t(fn, x, env, depth + 1))
        # n.to_bytes(4, "big")
        if isinstance(f, ast.Attribute) and f.attr == "to_bytes" and len(e.args) >= 2 and isinstance(e.args[0], ast.Constant) and e.args[0].value == 4 \
                and isinstance(e.args[1], ast.Constant) and e.args[1].value == "big":
            x = f.value
            if isinstance(x, ast.Call) and isinstance(x.func, ast.Name) and x.func.id == "len" and x.args:
                return ("LEN32", self._t(fn, x.args[0], env, depth + 1))
            return ("U32", self._t(fn, x, env, depth + 1))
        # encode_int(len(x) * 8, 64)
        if any(c.short == "rfc7518.util:encode_int" for c in callees) and len(e.args) == 2:
            a0, a1 = e.args
            if isinstance(a1, ast.Constant) and a1.value == 64 and isinstance(a0, ast.BinOp) and isinstance(a0.op, ast.Mult):
                for x, y in ((a0.left, a0.right), (a0.right, a0.left)):
                    if isinstance(y, ast.Constant) and y.value == 8 and isinstance(x, ast.Call) and isinstance(x.func, ast.Name) and x.func.id == "len" and x.args:
                        return ("U64BITS", self._t(fn, x.args[0], env, depth + 1))
            return ("CALL", "encode_int", tuple(self._t(fn, a, env, depth + 1) for a in e.args))
        if name == "len" and e.args:
            return ("LEN", self._t(fn, e.args[0], env, depth + 1))
        # inline small repo helpers (single callee, returns only)
        if len(callees) == 1 and depth < INLINE_LIMIT * 4:
            c = callees[0]
            rets = [n for n in ast.walk(c.node) if isinstance(n, ast.Return) and n.value is not None] if not isinstance(c.node, ast.Lambda) else []
            if rets and len(c.body) <= 14 and c.module.short.startswith(("rfc7518.derive_key", "rfc7518.jwe_encs", "util")) and c.name not in ("urlsafe_b64decode",):
                env2: Dict[str, Term] = {}
                for p in c.params:
                    a = self.eng.cg.arg_for_param(site, c, p)
                    if a is not None:
                        env2[p] = self._t(fn, a, env, depth + 1)
                    else:
                        d = c.param_default(p)
                        if d is not None:
                            env2[p] = self._t(c, d, {}, depth + 1)
                if c.self_name and isinstance(f, ast.Attribute):
                    env2[c.self_name] = ("LEAF", norm(f.value))
                terms = []
                for r in rets:
                    # skip returns that are under a test decided false by the arguments
                    par = self.eng.prog.parent(r)
                    dead = False
                    if isinstance(par, ast.If):
                        cnd = self._cond(c, par.test, env2)
                        if cnd is not None and ((r in par.body and cnd is False) or (r in par.orelse and cnd is True)):
                            dead = True
                    if not dead:
                        terms.append(self._t(c, r.value, env2, depth + 2))
                if len(terms) == 1:
                    return terms[0]
                return ("ALTS", tuple(terms))
        args = tuple(self._t(fn, a, env, depth + 1) for a in e.args) + tuple(("KW", k.arg, self._t(fn, k.value, env, depth + 1)) for k in e.keywords)
        recv = (self._t(fn, f.value, env, depth + 1),) if isinstance(f, ast.Attribute) and not self.eng.cg._is_static_chain(fn, f) else ()
        return ("CALL", name, recv + args)


def show(t: Any) -> str:
    if not isinstance(t, tuple):
        return repr(t)
    k = t[0]
    if k == "CAT":
        return " ‖ ".join(show(x) for x in t[1])
    if k == "CONST":
        return repr(t[1])
    if k == "LEAF":
        return str(t[1])
    if k == "NUM":
        return repr(t[1])
    if k in ("B64U", "B64J", "B64D", "LEN32", "U32", "U64BITS", "LEN"):
        return f"{k}({show(t[1])})"
    if k == "SLICE":
        return f"{show(t[1])}[{show(t[2]) if t[2] is not None else ''}:{show(t[3]) if t[3] is not None else ''}]"
    if k == "ALT":
        return f"({show(t[2])} | {show(t[3])})"
    if k == "OPT":
        return f"[{show(t[2])}]?"
    if k == "ALTS":
        return "(" + " | ".join(show(x) for x in t[1]) + ")"
    if k == "IDX":
        return f"{show(t[1])}[{t[2]}]"
    if k == "CALL":
        return f"{t[1]}({', '.join(show(x) for x in t[2])})"
    if k == "KW":
        return f"{t[1]}={show(t[2])}"
    if k == "ARITH":
        return f"({show(t[2])} {t[1]} {show(t[3])})"
    return repr(t)


# ----------------------------------------------------------------------------------------------- matching
def alts(t: Term) -> List[Term]:
    """alternatives of a term (ALT / ALTS flattened), as an unordered list"""
    if t[0] == "ALT":
        return alts(t[2]) + alts(t[3])
    if t[0] == "ALTS":
        out: List[Term] = []
        for x in t[1]:
            out.extend(alts(x))
        return out
    return [t]


def match(t: Any, p: Any) -> bool:
    """structural equality with ('ANY',) wildcards in the pattern; alternatives compare as sets"""
    if isinstance(p, tuple) and p and p[0] == "ANY":
        return True
    if isinstance(p, tuple) and p and p[0] == "ONEOF":
        return any(match(t, x) for x in p[1])
    if isinstance(p, tuple) and p and p[0] == "OPT" and isinstance(t, tuple) and t and t[0] == "ALT" and len(t) == 4:
        # an optional part written as a choice with the empty string: ALT(c, Q, b"") is OPT(c, Q)
        for q, e_, cond in ((t[2], t[3], t[1]), (t[3], t[2], ("NOT", t[1]))):
            if e_ in (("CONST", b""), ("CONST", "")):
                return match(("OPT", cond, q), p)
    if isinstance(t, tuple) and t and t[0] in ("ALT", "ALTS") or isinstance(p, tuple) and p and p[0] in ("ALT", "ALTS"):
        if not (isinstance(t, tuple) and isinstance(p, tuple)):
            return False
        ta, pa = alts(t), alts(p)
        return len(ta) == len(pa) and all(any(match(x, y) for y in pa) for x in ta) and all(any(match(x, y) for x in ta) for y in pa)
    if isinstance(t, tuple) and isinstance(p, tuple):
        if len(t) != len(p):
            return False
        return all(match(a, b) for a, b in zip(t, p))
    return t == p


def L(name: str) -> Term:
    return ("LEAF", name)


def C(*parts: Term) -> Term:
    flat: List[Term] = []
    for x in parts:
        if x[0] == "CAT":
            flat.extend(x[1])
        else:
            flat.append(x)
    return ("CAT", tuple(flat))


def K(b: bytes) -> Term:
    return ("CONST", b)


# ----------------------------------------------------------------------------------------------- term rewriting (round trips)
# Laws used (each is an assumption about a codec / container stated in the evidence, never about joserfc's own code):
#   split(x0 . x1 . ... . xn, '.')[i] = xi     when every xi is base64url / base64url-JSON text (its alphabet has no '.')
#   B64D(B64U(x)) = x                          (the strict codec of util.py; configuration decided by C19)
#   B64JD(B64J(h)) = h                         (JSON round trip of a header object)
def substitute(t: Any, leaf: str, repl: Term) -> Any:
    if not isinstance(t, tuple):
        return t
    if t == ("LEAF", leaf):
        return repl
    return tuple(substitute(x, leaf, repl) for x in t)


def _dot_free(t: Term) -> bool:
    return isinstance(t, tuple) and t and t[0] in ("B64U", "B64J")


def simplify(t: Any) -> Any:
    """apply the laws above bottom-up until nothing changes"""
    if not isinstance(t, tuple) or not t:
        return t
    t = tuple(simplify(x) for x in t)
    k = t[0]
    if k == "IDX" and isinstance(t[1], tuple) and t[1][:2] == ("CALL", "split"):
        args = t[1][2]
        if len(args) == 2 and args[1] == ("CONST", b".") and isinstance(args[0], tuple) and args[0][0] == "CAT":
            parts = list(args[0][1])
            segs: List[Term] = []
            okp = True
            i = 0
            while i < len(parts):
                if not _dot_free(parts[i]):
                    okp = False
                    break
                segs.append(parts[i])
                i += 1
                if i < len(parts):
                    if parts[i] != ("CONST", b"."):
                        okp = False
                        break
                    i += 1
            if okp and isinstance(t[2], int) and 0 <= t[2] < len(segs):
                return segs[t[2]]
    if k == "B64D" and isinstance(t[1], tuple) and t[1][0] == "B64U":
        return t[1][1]
    if k == "B64JD" and isinstance(t[1], tuple) and t[1][0] == "B64J":
        return t[1][1]
    if k == "CALL" and t[1] in ("decode_header", "json_b64decode") and len(t[2]) == 1:
        return simplify(("B64JD", t[2][0]))
    return t
