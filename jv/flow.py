"""S6 - backward value-flow / provenance slices.

slice(fn, expr) follows an expression backwards to its *leaf atoms* (entry parameters incl. key-sensitive
members, constants, CSPRNG sources, unknown fields ...) and records every call it passed on the way.
  * intra-procedural: all definitions of a name in the function (flow-insensitive union), tuple positions,
    loop / comprehension element flow, in-place container mutation (x[k]=v, x.update, x.append, x.add);
  * inter-procedural: call-string sensitive descent into repo callees' return values (so helpers like
    to_bytes do not merge their callers), parameters mapped back to the call site they came from;
  * heap: field-based, class-qualified through the typed layer, key-sensitive for constant keys, and
    *entry scoped*: only stores in functions reachable from the entry under analysis count.
Over-approximating (a union of everything that may flow), hence sound for MUST-NOT-PASS / MUST-ORIGINATE.
"""
from __future__ import annotations
import ast
from dataclasses import dataclass, field
from typing import Any, Dict, FrozenSet, Iterable, List, Optional, Set, Tuple

from .program import AnalysisError, ClassInfo, Ext, FunctionInfo, Module, Program, fn_nodes, norm
from .callgraph import CallGraph, CallSite

Path = Tuple[Tuple[Any, ...], ...]
MAX_PATH = 4
MAX_CTX = 8

# external callables whose result does not derive from their arguments (fresh values)
SOURCES = {
    "secrets.token_bytes", "secrets.token_hex", "secrets.token_urlsafe", "os.urandom", "time.time",
    "cryptography.hazmat.primitives.asymmetric.rsa.generate_private_key",
    "cryptography.hazmat.primitives.asymmetric.ec.generate_private_key",
}
SOURCE_METHODS = {"generate"}  # <OKP private class>.generate()
# external calls that hand their (first) argument / receiver through unchanged, keeping the access path
IDENTITY_FUNCS = {"builtins.dict", "builtins.list", "builtins.tuple", "copy.deepcopy", "copy.copy", "typing.cast",
                  "builtins.sorted", "builtins.reversed", "builtins.iter", "builtins.set", "builtins.frozenset"}
IDENTITY_METHODS = {"copy"}
MUTATORS_VALUE = {"append", "add", "insert", "appendleft"}
MUTATORS_ITER = {"extend", "update"}


@dataclass(frozen=True)
class Leaf:
    kind: str  # param | const | source | field | global | func | class | new | ext | exception | unknown
    name: str
    path: Path = ()
    post: Tuple[Any, ...] = ()  # hops ((ext function, access path applied to its result), ...) nearest the sink first

    def __repr__(self) -> str:
        p = "".join(_fmt_step(s) for s in self.path)
        q = "".join(f" via {h[0]}{''.join(_fmt_step(s) for s in h[1])}" for h in self.post)
        return f"{self.kind}:{self.name}{p}{q}"


def _fmt_step(s: Tuple[Any, ...]) -> str:
    if s[0] == "key":
        return f"[{s[1]!r}]"
    if s[0] == "idx":
        return f"[{s[1]}]"
    if s[0] == "elem":
        return "[*]"
    if s[0] == "attr":
        return f".{s[1]}"
    return "[…]"


def leaf_hops(l: "Leaf") -> List[Tuple[str, Any]]:
    """structural facts of a leaf: ('idx', i) after a split(), ('key', k) members of the entry parameter"""
    out: List[Tuple[str, Any]] = []
    for h in l.post:
        if h[0] == "split" and h[1] and h[1][0][0] == "idx":
            out.append(("idx", h[1][0][1]))
    for st in l.path:
        if st[0] == "key":
            out.append(("key", st[1]))
    return out


@dataclass
class SliceResult:
    exploded: bool = False
    leaves: Set[Leaf] = field(default_factory=set)
    calls: List[CallSite] = field(default_factory=list)  # every call traversed (repo and external)
    fields: Set[str] = field(default_factory=set)  # heap fields read on the way (Class.attr)
    truncated: bool = False

    def call_names(self) -> Set[str]:
        out: Set[str] = set()
        for s in self.calls:
            for c in s.callees:
                out.add(c.short)
            for e in s.ext:
                out.add(e)
        return out

    def passes(self, *names: str) -> List[CallSite]:
        """call sites traversed whose callee matches one of `names` (short repo name, or external name suffix)"""
        hit = []
        for s in self.calls:
            nm = [c.short for c in s.callees] + list(s.ext)
            for n in nm:
                if any(n == x or n.endswith("." + x) or n.endswith(":" + x) for x in names):
                    hit.append(s)
                    break
        return hit

    def leaf_kinds(self) -> Set[str]:
        return {l.kind for l in self.leaves}

    def describe(self, limit: int = 12) -> str:
        ls = sorted(repr(l) for l in self.leaves)
        return "{" + ", ".join(ls[:limit]) + (", …" if len(ls) > limit else "") + "}"


class Flow:
    def __init__(self, prog: Program, cg: CallGraph):
        self.prog = prog
        self.cg = cg
        self._rhs_stmt: Dict[int, ast.Assign] = {}
        self._defs_cache: Dict[int, Dict[str, List[Tuple[str, ast.AST, Any]]]] = {}
        self._stores_cache: Optional[Dict[str, List[Tuple[FunctionInfo, ast.AST, str, Any]]]] = None
        self._stop: Set[FunctionInfo] = set()

    # ================================================================== public
    def slice(self, fn: FunctionInfo, expr: ast.AST, scope: Iterable[FunctionInfo],
              roots: Iterable[FunctionInfo] = (), path: Path = (), max_states: int = 60000,
              stop_at: Iterable[FunctionInfo] = (), partial_ok: bool = False) -> SliceResult:
        """backward slice of `expr` (evaluated in fn).  `scope`: functions whose stores / call sites count;
        `roots`: functions whose parameters are leaves (the entry points)."""
        scope_set = set(scope)
        root_set = set(roots)
        self._stop = set(stop_at)
        res = SliceResult()
        seen: Set[Tuple[Any, ...]] = set()
        work: List[Tuple[FunctionInfo, Any, Path, Tuple[CallSite, ...], Tuple[Any, ...]]] = [(fn, expr, path, (), ())]
        call_seen: Set[int] = set()
        while work:
            f, node, p, ctx, post = work.pop()
            if len(p) > MAX_PATH:
                p = p[:MAX_PATH]
                res.truncated = True
            key = (id(f), id(node) if not isinstance(node, tuple) else node, p, tuple(id(c) for c in ctx), post)
            if key in seen:
                continue
            seen.add(key)
            if len(seen) > max_states:
                if partial_ok:
                    # the caller only draws *positive* conclusions (something IS on the slice) from an incomplete slice
                    res.truncated = True
                    res.exploded = True
                    break
                raise AnalysisError(f"value-flow slice exploded at {fn.short}: {norm(expr)[:60]}")
            for nxt in self._step(f, node, p, ctx, post, scope_set, root_set, res, call_seen):
                work.append(nxt)
        return res

    def slice_field(self, classes: List[ClassInfo], attr: str, scope: Iterable[FunctionInfo],
                    roots: Iterable[FunctionInfo] = (), path: Path = (),
                    stop_at: Iterable[FunctionInfo] = ()) -> SliceResult:
        """slice of the heap field `attr` of objects of the given classes (as stored within `scope`)"""
        if not classes:
            raise AnalysisError(f"slice_field: no class for field {attr}")
        fn = classes[0].module.body_fn
        return self.slice(fn, ("heap", tuple(classes), attr), scope, roots, path, stop_at=stop_at)

    # ================================================================== one backward step
    def _step(self, f, node, p, ctx, post, scope, roots, res, call_seen):
        out = []

        def go(fn2, n2, p2=p, ctx2=ctx, post2=post):
            out.append((fn2, n2, p2, ctx2, post2))

        def leaf(kind, name, lp=p):
            res.leaves.add(Leaf(kind, name, lp, post))

        if isinstance(node, tuple):
            if node[0] == "param":
                self._param(f, node[1], p, ctx, post, scope, roots, res, out)
            elif node[0] == "heap":
                self._heap_load(None, list(node[1]), False, node[2], p, post, scope, res, out)
            return out
        if isinstance(node, ast.Constant):
            leaf("const", repr(node.value)[:40], ())
            return out
        if isinstance(node, ast.Name):
            self._name(f, node, p, ctx, post, scope, roots, res, out)
            return out
        if isinstance(node, ast.Attribute):
            self._attribute(f, node, p, ctx, post, scope, roots, res, out)
            return out
        if isinstance(node, ast.Subscript):
            sl = node.slice
            if isinstance(sl, ast.Constant) and isinstance(sl.value, (str, bytes)):
                go(f, node.value, (("key", sl.value),) + p)
            elif isinstance(sl, ast.Constant) and isinstance(sl.value, int):
                go(f, node.value, (("idx", sl.value),) + p)
            elif isinstance(sl, ast.Slice):
                res.calls.append(CallSite(f, node, [], ["builtins.slice"], "ext", "slice"))
                go(f, node.value, p)
            else:
                go(f, node.value, (("elem",),) + p)
            return out
        if isinstance(node, ast.Call):
            self._call(f, node, p, ctx, post, scope, roots, res, out, call_seen)
            return out
        if isinstance(node, ast.BinOp):
            go(f, node.left, ())
            go(f, node.right, ())
            return out
        if isinstance(node, ast.BoolOp):
            for v in node.values:
                go(f, v)
            return out
        if isinstance(node, ast.IfExp):
            go(f, node.body)
            go(f, node.orelse)
            return out
        if isinstance(node, ast.Compare):
            go(f, node.left, ())
            for c in node.comparators:
                go(f, c, ())
            return out
        if isinstance(node, ast.UnaryOp):
            go(f, node.operand)
            return out
        if isinstance(node, (ast.Await, ast.Starred, ast.NamedExpr, ast.FormattedValue)):
            go(f, node.value)
            return out
        if isinstance(node, ast.JoinedStr):
            for v in node.values:
                go(f, v, ())
            return out
        if isinstance(node, ast.Dict):
            self._dict_display(f, node, p, go)
            return out
        if isinstance(node, (ast.List, ast.Tuple, ast.Set)):
            if p and p[0][0] == "idx" and not any(isinstance(e, ast.Starred) for e in node.elts):
                i = p[0][1]
                if -len(node.elts) <= i < len(node.elts):
                    go(f, node.elts[i], p[1:])
            else:
                rest = p[1:] if p and p[0][0] in ("elem", "idx") else (() if not p else None)
                if rest is not None:
                    for e in node.elts:
                        go(f, e, rest)
            return out
        if isinstance(node, (ast.ListComp, ast.SetComp, ast.GeneratorExp)):
            rest = p[1:] if p and p[0][0] in ("elem", "idx") else (() if not p else None)
            if rest is not None:
                go(f, node.elt, rest)
            return out
        if isinstance(node, ast.DictComp):
            rest = p[1:] if p and p[0][0] in ("elem", "key") else (() if not p else None)
            if rest is not None:
                go(f, node.value, rest)
            return out
        if isinstance(node, ast.Lambda):
            leaf("func", "<lambda>")
            return out
        leaf("unknown", type(node).__name__)
        return out

    # ------------------------------------------------------------------ dict displays
    def _dict_display(self, f, node: ast.Dict, p, go) -> None:
        if p and p[0][0] == "key":
            k = p[0][1]
            found = False
            for kk, vv in zip(node.keys, node.values):
                if kk is None:
                    go(f, vv, p)  # **spread keeps the pending key
                elif isinstance(kk, ast.Constant):
                    if kk.value == k:
                        go(f, vv, p[1:])
                        found = True
                else:
                    go(f, vv, p[1:])
            return
        rest = p[1:] if p and p[0][0] == "elem" else (() if not p else None)
        if rest is None:
            return
        for kk, vv in zip(node.keys, node.values):
            if kk is None:
                go(f, vv, p)
            else:
                go(f, vv, rest)

    # ------------------------------------------------------------------ names
    def _defs(self, fn: FunctionInfo) -> Dict[str, List[Tuple[str, ast.AST, Any]]]:
        """name -> list of (kind, node, extra):  assign(rhs, prefix-path) | mut-set(key expr, value) |
        mut-call(method, call) | except | with"""
        d = self._defs_cache.get(id(fn))
        if d is not None:
            return d
        d = {}

        def add(name: str, kind: str, node: ast.AST, extra: Any = None) -> None:
            d.setdefault(name, []).append((kind, node, extra))

        def bind(target: ast.expr, rhs: ast.AST, prefix: Path) -> None:
            if isinstance(target, ast.Name):
                add(target.id, "assign", rhs, prefix)
            elif isinstance(target, (ast.Tuple, ast.List)):
                for i, e in enumerate(target.elts):
                    if isinstance(e, ast.Starred):
                        bind(e.value, rhs, prefix + (("elem",),))
                    else:
                        bind(e, rhs, prefix + (("idx", i),))
            elif isinstance(target, ast.Subscript) and isinstance(target.value, ast.Name):
                add(target.value.id, "mut-set", target.slice, (rhs, prefix))
            elif isinstance(target, ast.Attribute):
                pass  # heap store, handled by the field index

        for n in fn_nodes(fn):
            if isinstance(n, ast.Assign):
                if len(n.targets) == 1 and isinstance(n.targets[0], ast.Name):
                    self._rhs_stmt[id(n.value)] = n
                for t in n.targets:
                    bind(t, n.value, ())
            elif isinstance(n, ast.AnnAssign) and n.value is not None:
                bind(n.target, n.value, ())
            elif isinstance(n, ast.AugAssign):
                if isinstance(n.target, ast.Name):
                    add(n.target.id, "assign", n.value, ())
                elif isinstance(n.target, ast.Subscript) and isinstance(n.target.value, ast.Name):
                    add(n.target.value.id, "mut-set", n.target.slice, (n.value, ()))
            elif isinstance(n, (ast.For, ast.AsyncFor)):
                self._bind_iter(n.target, n.iter, bind)
            elif isinstance(n, ast.comprehension):
                self._bind_iter(n.target, n.iter, bind)
            elif isinstance(n, (ast.With, ast.AsyncWith)):
                for it in n.items:
                    if it.optional_vars is not None:
                        bind(it.optional_vars, it.context_expr, ())
            elif isinstance(n, ast.ExceptHandler) and n.name:
                add(n.name, "except", n, None)
            elif isinstance(n, ast.NamedExpr) and isinstance(n.target, ast.Name):
                add(n.target.id, "assign", n.value, ())
            elif isinstance(n, ast.Call) and isinstance(n.func, ast.Attribute) and isinstance(n.func.value, ast.Name):
                if n.func.attr in MUTATORS_VALUE or n.func.attr in MUTATORS_ITER or n.func.attr == "setdefault":
                    add(n.func.value.id, "mut-call", n, n.func.attr)
        self._defs_cache[id(fn)] = d
        return d

    @staticmethod
    def _bind_iter(target, it, bind) -> None:
        if isinstance(it, ast.Call) and isinstance(it.func, ast.Name) and it.func.id == "enumerate" and it.args \
                and isinstance(target, (ast.Tuple, ast.List)) and len(target.elts) == 2:
            bind(target.elts[0], ast.Constant(value=0), ())
            bind(target.elts[1], it.args[0], (("elem",),))
        elif isinstance(it, ast.Call) and isinstance(it.func, ast.Name) and it.func.id == "zip" \
                and isinstance(target, (ast.Tuple, ast.List)) and len(target.elts) == len(it.args):
            for t_, a_ in zip(target.elts, it.args):
                bind(t_, a_, (("elem",),))
        elif isinstance(it, ast.Call) and isinstance(it.func, ast.Attribute) and it.func.attr == "items" \
                and isinstance(target, (ast.Tuple, ast.List)) and len(target.elts) == 2:
            bind(target.elts[0], ast.Constant(value="<key>"), ())
            bind(target.elts[1], it.func.value, (("elem",),))
        else:
            bind(target, it, (("elem",),))

    def _name(self, f, node: ast.Name, p, ctx, post, scope, roots, res, out) -> None:
        name = node.id
        owner: Optional[FunctionInfo] = f
        while owner is not None:
            if name in owner.nested:
                res.leaves.add(Leaf("func", owner.nested[name].short, (), post))
                return
            if owner.name != "<module>" and name in self.cg.local_names(owner):
                break
            owner = owner.parent
        if owner is None:
            # module-level symbol
            r = self.prog.resolve_symbol(f.module, name, fn=f)
            if isinstance(r, FunctionInfo):
                res.leaves.add(Leaf("func", r.short, (), post))
            elif isinstance(r, ClassInfo):
                res.leaves.add(Leaf("class", r.short, (), post))
            elif isinstance(r, Ext):
                res.leaves.add(Leaf("ext", r.name, p, post))
            elif isinstance(r, Module):
                res.leaves.add(Leaf("ext", r.name, p, post))
            elif isinstance(r, tuple) and r[0] == "var":
                m2: Module = r[1]
                vals = self.prog.var_values(m2, r[2])
                res.leaves.add(Leaf("global", f"{m2.short}.{r[2]}", p, post))
                for v in vals:
                    out.append((m2.body_fn, v, p, (), post))
                # functions that rebind the module variable (`global x`)
                for g in m2.functions:
                    self.cg.local_names(g)
                    if r[2] in g.__dict__.get("_globals_declared", ()):
                        for n2 in fn_nodes(g):
                            if isinstance(n2, ast.Assign):
                                for t2 in n2.targets:
                                    if isinstance(t2, ast.Name) and t2.id == r[2]:
                                        out.append((g, n2.value, p, (), post))
                                    elif isinstance(t2, (ast.Tuple, ast.List)) and isinstance(n2.value, (ast.Tuple, ast.List)) and len(t2.elts) == len(n2.value.elts):
                                        for te, ve in zip(t2.elts, n2.value.elts):
                                            if isinstance(te, ast.Name) and te.id == r[2]:
                                                out.append((g, ve, p, (), post))
                # module-level containers mutated at import time (KeySet.algorithm_keys[...] = ...) are tables
            elif name in ("True", "False", "None"):
                res.leaves.add(Leaf("const", name, (), post))
            else:
                res.leaves.add(Leaf("ext", f"builtins.{name}", p, post))
            return
        octx = ctx if owner is f else ()
        defs = self._defs(owner).get(name, [])
        reach = self._reaching(owner, name, node, defs) if owner is f else None
        if name in owner.params and (reach is None or reach[1]):
            out.append((owner, ("param", name), p, octx, post))
        for kind, dn, extra in defs:
            if kind == "assign":
                if reach is not None and id(dn) in self._rhs_stmt and id(dn) not in reach[0]:
                    continue  # a plain assignment that is overwritten on every path to this use
                out.append((owner, dn, tuple(extra) + p, octx, post))
            elif kind == "except":
                res.leaves.add(Leaf("exception", name, (), post))
            elif kind == "mut-set":
                rhs, prefix = extra
                keyexpr = dn
                if p and p[0][0] == "key":
                    if isinstance(keyexpr, ast.Constant):
                        if keyexpr.value == p[0][1]:
                            out.append((owner, rhs, tuple(prefix) + p[1:], octx, post))
                    else:
                        out.append((owner, rhs, tuple(prefix) + p[1:], octx, post))
                elif p and p[0][0] in ("idx", "elem"):
                    out.append((owner, rhs, tuple(prefix) + p[1:], octx, post))
                elif not p:
                    out.append((owner, rhs, tuple(prefix), octx, post))
            elif kind == "mut-call":
                self._mut_call(owner, dn, extra, p, octx, post, out)

    def _reaching(self, fn: FunctionInfo, name: str, use: ast.AST, defs):
        """(ids of the right-hand sides of the plain `name = v` statements that reach `use`, does the initial (parameter) value reach it) - or None when
        the use is not in the CFG or the name has fewer than two sources (then flow-insensitive slicing loses nothing)"""
        plain = [self._rhs_stmt[id(dn)] for kind, dn, _e in defs if kind == "assign" and id(dn) in self._rhs_stmt]
        if len(plain) + (1 if name in fn.params else 0) < 2:
            return None
        from .cfg import cfg_of
        cfg = cfg_of(fn)
        un = cfg.node_of(use)
        if un is None:
            return None
        nodes = [(st, cfg.node_of(st)) for st in plain]
        if any(c is None for _s, c in nodes):
            return None
        cn = [c for _s, c in nodes]

        def arrives(starts, blocked) -> bool:
            # the use is evaluated before the statement it sits in stores anything: arriving AT a blocked node that is the use node counts
            bl = [b for b in blocked if b is not un]
            return any(s_ is un or un in cfg.reachable(s_, blocked=bl) for s_ in starts if s_ not in bl)

        got = set()
        for st, c in nodes:
            others = [x for x in cn if x is not c]
            succs = [s_ for s_, lab in cfg.succ[c] if lab != "exc"]
            if arrives(succs, others + ([c] if c is not un else [])):
                got.add(id(st.value))
        initial = arrives([cfg.entry], cn)
        return got, initial

    def _mut_call(self, fn, call: ast.Call, meth: str, p, ctx, post, out) -> None:
        if meth in MUTATORS_VALUE:
            args = call.args[-1:] if meth == "insert" else call.args
            for a in args:
                if not p:
                    out.append((fn, a, (), ctx, post))
                elif p[0][0] in ("elem", "idx"):
                    out.append((fn, a, p[1:], ctx, post))
        elif meth == "extend":
            for a in call.args:
                if not p:
                    out.append((fn, a, (), ctx, post))
                elif p[0][0] in ("elem", "idx"):
                    out.append((fn, a, p, ctx, post))
        elif meth == "update":
            for a in call.args:
                out.append((fn, a, p, ctx, post))
            for kw in call.keywords:
                if kw.arg is None:
                    out.append((fn, kw.value, p, ctx, post))
                elif p and p[0][0] == "key" and p[0][1] == kw.arg:
                    out.append((fn, kw.value, p[1:], ctx, post))
                elif not p:
                    out.append((fn, kw.value, (), ctx, post))
        elif meth == "setdefault" and len(call.args) == 2:
            k, v = call.args
            if p and p[0][0] == "key":
                if not isinstance(k, ast.Constant) or k.value == p[0][1]:
                    out.append((fn, v, p[1:], ctx, post))
            elif not p:
                out.append((fn, v, (), ctx, post))

    # ------------------------------------------------------------------ parameters
    def _param(self, f: FunctionInfo, name: str, p, ctx, post, scope, roots, res, out) -> None:
        if f.name == "<lambda>" or isinstance(f.node, ast.Lambda):
            res.leaves.add(Leaf("param", f"{f.short}.{name}", p, post))
            return
        if ctx:
            site = ctx[-1]
            if f in site.callees or site.kind == "property":
                self._bind_arg(site, f, name, p, ctx[:-1], post, res, out)
                return
        if f in roots:
            res.leaves.add(Leaf("param", f"{f.short}.{name}", p, post))
            return
        sites = [s for s in self.cg.callers.get(f, []) if s.fn in scope]
        if not sites:
            res.leaves.add(Leaf("param", f"{f.short}.{name}", p, post))
            return
        for s in sites:
            self._bind_arg(s, f, name, p, (), post, res, out)

    def _bind_arg(self, site: CallSite, callee: FunctionInfo, name: str, p, ctx, post, res, out) -> None:
        node = site.node
        if name == callee.self_name:
            # receiver object
            if isinstance(node, ast.Attribute):  # property read
                out.append((site.fn, node.value, p, ctx, post))
            elif isinstance(node, ast.Call) and isinstance(node.func, ast.Attribute) and site.kind != "direct":
                out.append((site.fn, node.func.value, p, ctx, post))
            elif isinstance(node, ast.Call) and site.kind == "ctor":
                res.leaves.add(Leaf("new", callee.cls.short if callee.cls else "?", p, post))
            elif isinstance(node, ast.Call) and isinstance(node.func, ast.Attribute) and callee.is_classmethod:
                out.append((site.fn, node.func.value, p, ctx, post))
            else:
                res.leaves.add(Leaf("unknown", f"receiver of {callee.short}", p, post))
            return
        if isinstance(node, ast.Attribute):
            return
        a = self.cg.arg_for_param(site, callee, name)
        if a is not None:
            out.append((site.fn, a, p, ctx, post))
            return
        # *args / **kwargs at the call site
        assert isinstance(node, ast.Call)
        star = [x.value for x in node.args if isinstance(x, ast.Starred)]
        dstar = [k.value for k in node.keywords if k.arg is None]
        if dstar:
            for d in dstar:
                out.append((site.fn, d, (("key", name),) + p, ctx, post))
        if star:
            for s_ in star:
                out.append((site.fn, s_, (("elem",),) + p, ctx, post))
        a_ = callee.node.args
        if a_.kwarg is not None and a_.kwarg.arg == name:
            for kw in node.keywords:
                if kw.arg is not None and kw.arg not in callee.params:
                    if p and p[0][0] == "key":
                        if p[0][1] == kw.arg:
                            out.append((site.fn, kw.value, p[1:], ctx, post))
                    else:
                        out.append((site.fn, kw.value, p[1:] if p else (), ctx, post))
            return
        d = callee.param_default(name)
        if d is not None and not dstar and not star:
            out.append((callee, d, p, (), post))
        elif d is not None:
            out.append((callee, d, p, (), post))

    # ------------------------------------------------------------------ attributes / heap
    def _field_index(self) -> Dict[str, List[Tuple[FunctionInfo, ast.AST, str, Any]]]:
        """attr name -> [(function, receiver expr, kind, payload)], kind in set | sub-set | mut-call"""
        if self._stores_cache is not None:
            return self._stores_cache
        idx: Dict[str, List[Tuple[FunctionInfo, ast.AST, str, Any]]] = {}

        def add(attr, fn, recv, kind, payload):
            idx.setdefault(attr, []).append((fn, recv, kind, payload))

        def bind(fn, target, rhs, prefix):
            if isinstance(target, ast.Attribute):
                add(target.attr, fn, target.value, "set", (rhs, prefix))
            elif isinstance(target, (ast.Tuple, ast.List)):
                for i, e in enumerate(target.elts):
                    bind(fn, e, rhs, prefix + (("idx", i),))
            elif isinstance(target, ast.Subscript) and isinstance(target.value, ast.Attribute):
                add(target.value.attr, fn, target.value.value, "sub-set", (target.slice, rhs, prefix))

        for fn in self.prog.all_functions():
            for n in fn_nodes(fn):
                if isinstance(n, ast.Assign):
                    for t in n.targets:
                        bind(fn, t, n.value, ())
                elif isinstance(n, ast.AnnAssign) and n.value is not None:
                    bind(fn, n.target, n.value, ())
                elif isinstance(n, ast.AugAssign):
                    bind(fn, n.target, n.value, ())
                elif isinstance(n, ast.Call) and isinstance(n.func, ast.Attribute) and \
                        isinstance(n.func.value, ast.Attribute):
                    m_ = n.func.attr
                    if m_ in MUTATORS_VALUE or m_ in MUTATORS_ITER or m_ == "setdefault":
                        add(n.func.value.attr, fn, n.func.value.value, "mut-call", (n, m_))
        self._stores_cache = idx
        return idx

    def _classes_of(self, fn: FunctionInfo, recv: ast.expr) -> Tuple[List[ClassInfo], bool]:
        repo, ext, is_any, _ = self.cg._recv_classes(fn, recv)
        return repo, (is_any or (not repo and not ext))

    @staticmethod
    def _compatible(a: List[ClassInfo], a_any: bool, b: List[ClassInfo], b_any: bool) -> bool:
        if a_any or b_any or not a or not b:
            return True
        for x in a:
            for y in b:
                if x is y or x in y.mro or y in x.mro:
                    return True
        return False

    def _attribute(self, f, node: ast.Attribute, p, ctx, post, scope, roots, res, out) -> None:
        # property read?
        site = self.cg.site_of.get(id(node))
        if site is not None and site.kind == "property":
            res.calls.append(site)
            for c in site.callees:
                for r in _returns(c):
                    out.append((c, r, p, _push(ctx, site), post))
            return
        # static chains: module.attr / Class.attr / ext.attr
        if self.cg._is_static_chain(f, node):
            r = self.prog.resolve_expr(f.module, node, f)
            if isinstance(r, Ext):
                res.leaves.add(Leaf("ext", r.name, p, post))
                return
            if isinstance(r, FunctionInfo):
                res.leaves.add(Leaf("func", r.short, (), post))
                return
            if isinstance(r, ClassInfo):
                res.leaves.add(Leaf("class", r.short, (), post))
                return
            if isinstance(r, tuple) and r[0] == "var":
                res.leaves.add(Leaf("global", f"{r[1].short}.{r[2]}", p, post))
                for v in self.prog.var_values(r[1], r[2]):
                    out.append((r[1].body_fn, v, p, (), post))
                return
            base = self.prog.resolve_expr(f.module, node.value, f)
            if isinstance(base, ClassInfo):
                self._class_attr(base, node.attr, p, post, res, out, scope)
                return
        attr = node.attr
        recv_classes, recv_any = self._classes_of(f, node.value)
        # bound method object used as a value
        for ci in recv_classes:
            m_ = ci.lookup(attr)
            if m_ is not None and not m_.is_property:
                res.leaves.add(Leaf("func", m_.short, (), post))
                return
        if not recv_classes and not recv_any:
            # attribute of an external object (enc.tag of a pyca context, curve.name ...): derives from the object
            res.calls.append(CallSite(f, node, [], [f"attr.{attr}"], "ext", attr))
            out.append((f, node.value, (), ctx, post))
            return
        self._heap_load(f, recv_classes, recv_any, attr, p, post, scope, res, out)

    def _heap_load(self, f: Optional[FunctionInfo], recv_classes: List[ClassInfo], recv_any: bool, attr: str,
                   p, post, scope, res, out) -> None:
        fname = (recv_classes[0].name if recv_classes else "?") + "." + attr
        res.fields.add(fname)
        found = False
        # class-level attributes
        for ci in recv_classes:
            for c in ci.mro + ci.all_subclasses():
                if attr in c.class_attrs:
                    found = True
                    out.append((c.module.body_fn, c.class_attrs[attr], p, (), post))
        fcls = None
        if f is not None:
            fcls = f.cls or (f.parent.cls if f.parent else None)
        for fn2, recv2, kind, payload in self._field_index().get(attr, []):
            in_scope = fn2 in scope or (fn2.name == "__init__" and self._init_relevant(fn2, recv_classes, recv_any))
            if not in_scope:
                continue
            c2, any2 = self._classes_of(fn2, recv2)
            if not self._compatible(recv_classes, recv_any, c2, any2):
                continue
            # private name mangling: __x inside different classes are different fields
            if attr.startswith("__") and not attr.endswith("__") and f is not None:
                if fcls is not (fn2.cls or (fn2.parent.cls if fn2.parent else None)):
                    continue
            found = True
            if kind == "set":
                rhs, prefix = payload
                out.append((fn2, rhs, tuple(prefix) + p, (), post))
            elif kind == "sub-set":
                keyexpr, rhs, prefix = payload
                if p and p[0][0] == "key":
                    if not isinstance(keyexpr, ast.Constant) or keyexpr.value == p[0][1]:
                        out.append((fn2, rhs, tuple(prefix) + p[1:], (), post))
                elif p and p[0][0] in ("elem", "idx"):
                    out.append((fn2, rhs, tuple(prefix) + p[1:], (), post))
                elif not p:
                    out.append((fn2, rhs, tuple(prefix), (), post))
            elif kind == "mut-call":
                call, meth = payload
                self._mut_call(fn2, call, meth, p, (), post, out)
        if not found:
            res.leaves.add(Leaf("field", fname, p, post))

    def _init_relevant(self, init: FunctionInfo, recv_classes: List[ClassInfo], recv_any: bool) -> bool:
        if init.cls is None:
            return False
        if recv_any or not recv_classes:
            return False
        return any(init.cls in c.mro or c in init.cls.mro for c in recv_classes)

    def _class_attr(self, ci: ClassInfo, attr: str, p, post, res, out, scope) -> None:
        hit = False
        for c in ci.mro + ci.all_subclasses():
            if attr in c.class_attrs:
                hit = True
                out.append((c.module.body_fn, c.class_attrs[attr], p, (), post))
        res.leaves.add(Leaf("global", f"{ci.short}.{attr}", p, post))
        # class-level tables written through cls.x[...] = v (registration code)
        for fn2, recv2, kind, payload in self._field_index().get(attr, []):
            if kind == "sub-set":
                keyexpr, rhs, prefix = payload
                if not p:
                    out.append((fn2, rhs, tuple(prefix), (), post))
                elif p[0][0] in ("key", "elem", "idx"):
                    out.append((fn2, rhs, tuple(prefix) + p[1:], (), post))

    # ------------------------------------------------------------------ calls
    def _call(self, f, node: ast.Call, p, ctx, post, scope, roots, res, out, call_seen) -> None:
        site = self.cg.site_of.get(id(node))
        if site is None:
            # synthesized / unseen call: treat as opaque combination of its parts
            for a in node.args:
                out.append((f, a, (), ctx, post))
            return
        if id(site) not in call_seen:
            call_seen.add(id(site))
            res.calls.append(site)
        func = node.func
        # ---- barrier: do not look through these callees
        if site.callees and self._stop and all(c in self._stop for c in site.callees):
            res.leaves.add(Leaf("barrier", site.callees[0].short.split(":")[-1].split(".")[-1], (), post))
            return
        # ---- repo callees
        if site.callees:
            for c in site.callees:
                if site.kind == "ctor":
                    res.leaves.add(Leaf("new", (c.cls.short if c.cls else "?"), p, post))
                    continue
                if c.is_abstract:
                    continue
                rets = _returns(c)
                for r in rets:
                    out.append((c, r, p, _push(ctx, site), post))
            if site.kind == "ctor" and not site.callees:
                res.leaves.add(Leaf("new", site.recv_classes[0] if site.recv_classes else "?", p, post))
            if not site.ext:
                return
        if site.kind == "ctor":
            res.leaves.add(Leaf("new", site.recv_classes[0] if site.recv_classes else "?", p, post))
            return
        # ---- user supplied callable / unresolved parameter call
        if site.kind == "param" and not site.callees:
            res.leaves.add(Leaf("unknown", f"result of callable {site.name}", p, post))
            for a in node.args:
                out.append((f, a, (), ctx, post))
            return
        # ---- external
        names = site.ext or ["?"]
        name = names[0]
        meth = func.attr if isinstance(func, ast.Attribute) else None
        if any(n in SOURCES for n in names) or (meth in SOURCE_METHODS and not site.callees):
            res.leaves.add(Leaf("source", name, (), post))
            return
        recv = func.value if isinstance(func, ast.Attribute) and site.kind != "ext" else None
        if isinstance(func, ast.Attribute) and not self.cg._is_static_chain(f, func):
            recv = func.value
        # structure-preserving externals
        if name == "typing.cast" and len(node.args) == 2:
            out.append((f, node.args[1], p, ctx, post))  # cast(T, value): the value is the second argument
            return
        if name in IDENTITY_FUNCS and node.args:
            out.append((f, node.args[0], p, ctx, post))
            return
        if meth in IDENTITY_METHODS and recv is not None and not node.args:
            out.append((f, recv, p, ctx, post))
            return
        if meth == "get" and recv is not None and node.args and isinstance(node.args[0], ast.Constant):
            out.append((f, recv, (("key", node.args[0].value),) + p, ctx, post))
            if len(node.args) > 1:
                out.append((f, node.args[1], p, ctx, post))
            return
        if meth in ("pop", "popitem") and recv is not None:
            if node.args and isinstance(node.args[0], ast.Constant) and isinstance(node.args[0].value, str):
                out.append((f, recv, (("key", node.args[0].value),) + p, ctx, post))
            else:
                out.append((f, recv, (("elem",),) + p, ctx, post))
            return
        if meth in ("values",) and recv is not None:
            out.append((f, recv, p, ctx, post))
            return
        if meth in ("items", "keys") and recv is not None:
            out.append((f, recv, p, ctx, post))
            return
        if name == "builtins.enumerate" and node.args:
            if p and p[0][0] == "elem":
                rest = p[1:]
                if rest and rest[0] == ("idx", 1):
                    out.append((f, node.args[0], (("elem",),) + rest[1:], ctx, post))
                    return
            out.append((f, node.args[0], p, ctx, post))
            return
        if name == "builtins.getattr" and len(node.args) >= 2:
            out.append((f, node.args[0], (), ctx, post))
            if len(node.args) > 2:
                out.append((f, node.args[2], p, ctx, post))
            return
        if name in ("builtins.isinstance", "builtins.len", "builtins.callable", "builtins.hasattr", "builtins.type"):
            # predicates / sizes: the result carries no content of the argument (kept as a call record)
            res.leaves.add(Leaf("const", f"<{name.split('.')[-1]}>", (), post))
            return
        # generic external: result derives from receiver and every argument; pending structure becomes `post`
        post2 = post
        if p and len(post) < 4:
            post2 = post + ((meth or name.split(".")[-1], p),)
        if recv is not None:
            out.append((f, recv, (), ctx, post2))
        for a in node.args:
            if isinstance(a, ast.Starred):
                out.append((f, a.value, (), ctx, post2))
            else:
                out.append((f, a, (), ctx, post2))
        for kw in node.keywords:
            out.append((f, kw.value, (), ctx, post2))
        if recv is None and not node.args and not node.keywords:
            res.leaves.add(Leaf("ext", name + "()", (), post))


def _push(ctx: Tuple[CallSite, ...], site: CallSite) -> Tuple[CallSite, ...]:
    c = ctx + (site,)
    if len(c) > MAX_CTX:
        c = c[-MAX_CTX:]
    return c


def _returns(fn: FunctionInfo) -> List[ast.expr]:
    cached = fn.__dict__.get("_returns")
    if cached is not None:
        return cached
    out = []
    for n in fn_nodes(fn):
        if isinstance(n, ast.Return) and n.value is not None:
            out.append(n.value)
    if isinstance(fn.node, ast.Lambda):
        out = [fn.node.body]
    fn.__dict__["_returns"] = out
    return out
