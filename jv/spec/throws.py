"""External throws table (DESIGN B7) and exception class hierarchy - part of the trusted base.

Value-dependent raises of external callables for *well-typed* arguments, probed in this sandbox with
cryptography 50.0.1 / CPython 3.12.1 / pycryptodome 3.23.  Type-dependent raises (TypeError, KeyError,
AttributeError, IndexError from operating on untrusted JSON of the wrong kind) are rule family E2's subject.
Matching is by suffix of the canonical callee name."""

IT = "cryptography.exceptions.InvalidTag"
IS = "cryptography.exceptions.InvalidSignature"
IU = "cryptography.hazmat.primitives.keywrap.InvalidUnwrap"
PANIC = "pyo3_runtime.PanicException"

# (suffix, [exceptions], guard) ; guard names a keyword/positional argument whose range check suppresses the starred ones
THROWS = [
    ("json.loads", ["json.JSONDecodeError", "UnicodeDecodeError", "ValueError", "RecursionError"], None),
    ("json.dumps", [], None),
    ("dict_keys.isdisjoint", [], None), ("dict_keys.__and__", [], None),
    ("datetime.datetime.fromtimestamp", ["OverflowError", "ValueError", "OSError"], None),
    ("datetime.datetime.utcfromtimestamp", ["OverflowError", "ValueError", "OSError"], None),
    ("datetime.date.fromtimestamp", ["OverflowError", "ValueError", "OSError"], None),
    ("base64.b64decode", ["binascii.Error"], None),
    ("base64.urlsafe_b64encode", [], None),
    ("base64.urlsafe_b64decode", ["binascii.Error", "ValueError"], None),   # probed: bad padding -> binascii.Error, non-ASCII str -> ValueError
    ("binascii.Error", [], None),                                            # constructing the exception object
    ("ec.derive_private_key", ["ValueError"], None),                         # probed: 0, negative and out-of-range scalars -> ValueError
    ("binascii.a2b_hex", ["binascii.Error"], None),
    ("binascii.hexlify", [], None), ("binascii.unhexlify", ["binascii.Error"], None),
    ("binascii.b2a_hex", [], None),
    ("builtins.str.encode", ["UnicodeEncodeError"], None),
    ("builtins.bytes.decode", ["UnicodeDecodeError"], None),
    ("builtins.int", ["ValueError"], None),
    ("builtins.bytes", [], None),
    ("zlib._Decompress.decompress", ["zlib.error"], None),
    ("zlib._Decompress.flush", ["zlib.error"], None),
    ("zlib.decompressobj", [], None),
    ("keywrap.aes_key_unwrap", [IU, "ValueError"], None),
    ("keywrap.aes_key_wrap", ["ValueError"], None),
    ("algorithms.AES", ["ValueError"], None),
    ("modes.GCM", ["ValueError"], None),
    ("modes.CBC", ["ValueError"], None),
    ("aead.AESGCM", ["ValueError"], None),                 # probed: key not 128/192/256 bit
    ("aead.AESGCM.decrypt", [IT, "ValueError"], None),     # probed: nonce outside 8..128 octets -> ValueError, else InvalidTag
    ("aead.AESGCM.encrypt", ["ValueError", "OverflowError"], None),
    ("ciphers.Cipher", ["ValueError"], None),
    ("Cipher.decryptor", ["ValueError"], None),
    ("Cipher.encryptor", ["ValueError"], None),
    ("AEADDecryptionContext.finalize", [IT], None),
    ("AEADDecryptionContext.finalize_with_tag", [IT, "ValueError"], None),
    ("AEADDecryptionContext.update", [], None),
    ("AEADDecryptionContext.authenticate_additional_data", [], None),
    ("CipherContext.finalize", ["ValueError"], None),
    ("CipherContext.update", [], None),
    ("PaddingContext.finalize", ["ValueError"], None),
    ("PaddingContext.update", [], None),
    ("padding.PKCS7", [], None),
    ("PKCS7.unpadder", [], None),
    ("kdf.pbkdf2.PBKDF2HMAC", ["*OverflowError", "ValueError"], "iterations"),
    ("PBKDF2HMAC.derive", ["*" + PANIC], "iterations"),
    ("ConcatKDFHash", [], None),
    ("ConcatKDFHash.derive", [], None),
    ("RSAPrivateKey.decrypt", ["ValueError"], None),
    ("PublicKey.verify", [IS], None),
    ("utils.encode_dss_signature", ["ValueError"], None),
    ("ec.EllipticCurvePublicNumbers", [], None),
    ("ec.EllipticCurvePrivateNumbers", [], None),
    ("PublicNumbers.public_key", ["ValueError"], None),
    ("PrivateNumbers.private_key", ["ValueError"], None),
    ("rsa.RSAPublicNumbers", [], None),
    ("rsa.RSAPrivateNumbers", [], None),
    ("rsa.rsa_recover_prime_factors", ["ValueError"], None),
    ("rsa.rsa_crt_dmp1", [], None),
    ("rsa.rsa_crt_dmq1", [], None),
    ("rsa.rsa_crt_iqmp", [], None),
    (".from_public_bytes", ["ValueError"], None),
    (".from_private_bytes", ["ValueError"], None),
    ("PrivateKey.exchange", ["ValueError"], None),
    ("ChaCha20_Poly1305.new", ["ValueError"], None),
    ("ChaCha20Poly1305Cipher.decrypt_and_verify", ["ValueError"], None),
    ("ChaCha20Poly1305Cipher.update", [], None),
    ("struct.pack", [], None),  # struct.error only for n >= 2**32: lengths of in-memory data / folded bit sizes
    ("struct.unpack", [], None),
    ("hashlib.new", [], None),  # digest name is a class-level constant
    # PEM / DER loaders are only reached with the caller's own key material (not token data)
    ("serialization.load_pem_private_key", ["ValueError"], None),
    ("serialization.load_pem_public_key", ["ValueError"], None),
    ("serialization.load_der_private_key", ["ValueError"], None),
    ("serialization.load_der_public_key", ["ValueError"], None),
    ("serialization.load_ssh_private_key", ["ValueError"], None),
    ("serialization.load_ssh_public_key", ["ValueError"], None),
    ("x509.load_pem_x509_certificate", ["ValueError"], None),
]

# externals that never raise for the arguments the repo gives them (pure accessors, constructors of descriptors, builtins on
# well-typed values); anything not listed here nor in THROWS is reported in the evidence as "unclassified external"
SILENT_PREFIXES = (
    "builtins.", "typing.", "collections.", "hmac.", "_hashlib.", "warnings.", "random.", "copy.", "secrets.", "time.",
    "cryptography.hazmat.backends.default_backend", "cryptography.hazmat.primitives.hashes.", "cryptography.hazmat.primitives.serialization.NoEncryption",
    "cryptography.hazmat.primitives.asymmetric.ec.ECDH", "cryptography.hazmat.primitives.asymmetric.ec.ECDSA",
    "cryptography.hazmat.primitives.asymmetric.padding.", "hashlib.sha", "attr.", "calendar.", "re.", "datetime.",
    "logging.", "functools.", "itertools.", "operator.", "abc.",  # logging never propagates handler / formatting errors (logging.raiseExceptions only prints)
)
SILENT_SUFFIXES = (
    ".public_key", ".public_numbers", ".private_numbers", ".public_bytes", ".private_bytes", ".digest", ".curve", ".key_size",
    "Certificate.public_key",
)

EXC_BASES = {
    "BaseException": [],
    "Exception": ["BaseException"],
    "ValueError": ["Exception"],
    "UnicodeError": ["ValueError"],
    "UnicodeDecodeError": ["UnicodeError"],
    "UnicodeEncodeError": ["UnicodeError"],
    "json.JSONDecodeError": ["ValueError"],
    "binascii.Error": ["ValueError"],
    "LookupError": ["Exception"],
    "KeyError": ["LookupError"],
    "IndexError": ["LookupError"],
    "TypeError": ["Exception"],
    "AttributeError": ["Exception"],
    "AssertionError": ["Exception"],
    "ArithmeticError": ["Exception"],
    "OverflowError": ["ArithmeticError"],
    "ZeroDivisionError": ["ArithmeticError"],
    "RuntimeError": ["Exception"],
    "RecursionError": ["RuntimeError"],
    "NotImplementedError": ["RuntimeError"],
    "MemoryError": ["Exception"],
    "OSError": ["Exception"],
    "StopIteration": ["Exception"],
    "zlib.error": ["Exception"],
    "struct.error": ["Exception"],
    IT: ["Exception"],
    IS: ["Exception"],
    IU: ["Exception"],
    "cryptography.exceptions.InvalidKey": ["Exception"],
    "cryptography.exceptions.UnsupportedAlgorithm": ["Exception"],
    "cryptography.exceptions.AlreadyFinalized": ["Exception"],
    PANIC: ["BaseException"],
    "Warning": ["Exception"],
    "DeprecationWarning": ["Warning"],
}
ALIASES = {"builtins.ValueError": "ValueError", "builtins.TypeError": "TypeError", "builtins.KeyError": "KeyError",
           "builtins.AssertionError": "AssertionError", "builtins.RuntimeError": "RuntimeError", "builtins.Exception": "Exception",
           "builtins.NotImplementedError": "NotImplementedError", "builtins.BaseException": "BaseException",
           "builtins.IndexError": "IndexError", "builtins.AttributeError": "AttributeError", "builtins.OverflowError": "OverflowError",
           "builtins.RecursionError": "RecursionError", "builtins.LookupError": "LookupError", "builtins.UnicodeError": "UnicodeError",
           "builtins.UnicodeDecodeError": "UnicodeDecodeError", "builtins.ArithmeticError": "ArithmeticError",
           "json.decoder.JSONDecodeError": "json.JSONDecodeError", "zlib.error": "zlib.error", "binascii.Error": "binascii.Error"}
