"""Frozen oracle tables (DESIGN Appendix B), transcribed from RFC 7515-7519, 7638, 7797, 8037, 8812,
draft-madden-jose-ecdh-1pu-04, draft-amringer-jose-chacha-02, docs/guide/algorithms.rst and the property
statements.  Part of the trusted base."""

H = "cryptography.hazmat.primitives.hashes."
PAD = "cryptography.hazmat.primitives.asymmetric.padding."

# B1 ------------------------------------------------------------------------------------------- JWS algorithms
# name -> (class name, key type, recommended, hash (ext name), extra)
JWS_ALGS = {
    "none": ("NoneAlgModel", "oct", False, None, {}),
    "HS256": ("HMACAlgModel", "oct", True, "hashlib.sha256", {}),
    "HS384": ("HMACAlgModel", "oct", False, "hashlib.sha384", {}),
    "HS512": ("HMACAlgModel", "oct", False, "hashlib.sha512", {}),
    "RS256": ("RSAAlgModel", "RSA", True, H + "SHA256", {"padding": "PKCS1v15"}),
    "RS384": ("RSAAlgModel", "RSA", False, H + "SHA384", {"padding": "PKCS1v15"}),
    "RS512": ("RSAAlgModel", "RSA", False, H + "SHA512", {"padding": "PKCS1v15"}),
    "ES256": ("ECAlgModel", "EC", True, H + "SHA256", {"curve": "P-256"}),
    "ES384": ("ECAlgModel", "EC", False, H + "SHA384", {"curve": "P-384"}),
    "ES512": ("ECAlgModel", "EC", False, H + "SHA512", {"curve": "P-521"}),
    "PS256": ("RSAPSSAlgModel", "RSA", False, H + "SHA256", {"padding": "PSS"}),
    "PS384": ("RSAPSSAlgModel", "RSA", False, H + "SHA384", {"padding": "PSS"}),
    "PS512": ("RSAPSSAlgModel", "RSA", False, H + "SHA512", {"padding": "PSS"}),
    "EdDSA": ("EdDSAAlgModel", "OKP", False, None, {}),
    "ES256K": ("ECAlgModel", "EC", False, H + "SHA256", {"curve": "secp256k1"}),
}
JWS_RECOMMENDED = {"HS256", "RS256", "ES256"}

# B2 ------------------------------------------------------------------------------------------- JWE key management
# name -> (key types, key_size (None = direct mode), recommended)
JWE_ALGS = {
    "RSA1_5": (["RSA"], 2048, False),
    "RSA-OAEP": (["RSA"], 2048, True),
    "RSA-OAEP-256": (["RSA"], 2048, False),
    "A128KW": (["oct"], 128, True),
    "A192KW": (["oct"], 192, False),
    "A256KW": (["oct"], 256, True),
    "dir": (["oct"], None, True),
    "ECDH-ES": (["EC", "OKP"], None, True),
    "ECDH-ES+A128KW": (["EC", "OKP"], 128, True),
    "ECDH-ES+A192KW": (["EC", "OKP"], 192, False),
    "ECDH-ES+A256KW": (["EC", "OKP"], 256, True),
    "A128GCMKW": (["oct"], 128, False),
    "A192GCMKW": (["oct"], 192, False),
    "A256GCMKW": (["oct"], 256, False),
    "PBES2-HS256+A128KW": (["oct"], 128, False),
    "PBES2-HS384+A192KW": (["oct"], 192, False),
    "PBES2-HS512+A256KW": (["oct"], 256, False),
}
JWE_DRAFT_ALGS = {
    "ECDH-1PU": (["EC", "OKP"], None, False),
    "ECDH-1PU+A128KW": (["EC", "OKP"], 128, False),
    "ECDH-1PU+A192KW": (["EC", "OKP"], 192, False),
    "ECDH-1PU+A256KW": (["EC", "OKP"], 256, False),
}
RSA_PADDINGS = {
    "RSA1_5": f"ext:{PAD}PKCS1v15()",
    "RSA-OAEP": f"ext:{PAD}OAEP(ext:{PAD}MGF1(ext:{H}SHA1()), ext:{H}SHA1(), None)",
    "RSA-OAEP-256": f"ext:{PAD}OAEP(ext:{PAD}MGF1(ext:{H}SHA256()), ext:{H}SHA256(), None)",
}
PBES2 = {  # name -> (hash, wrapper name)
    "PBES2-HS256+A128KW": (f"ext:{H}SHA256()", "A128KW"),
    "PBES2-HS384+A192KW": (f"ext:{H}SHA384()", "A192KW"),
    "PBES2-HS512+A256KW": (f"ext:{H}SHA512()", "A256KW"),
}
KEY_WRAPPERS = {  # agreement-with-wrap name -> wrapper name
    "ECDH-ES+A128KW": "A128KW", "ECDH-ES+A192KW": "A192KW", "ECDH-ES+A256KW": "A256KW",
    "ECDH-1PU+A128KW": "A128KW", "ECDH-1PU+A192KW": "A192KW", "ECDH-1PU+A256KW": "A256KW",
}

# B3 ------------------------------------------------------------------------------------------- content encryption
# name -> (cek bits, iv bits, recommended, extra)
JWE_ENCS = {
    "A128CBC-HS256": (256, 128, True, {"key_len": 16, "hash_alg": "hashlib.sha256", "key_size": 128}),
    "A192CBC-HS384": (384, 128, True, {"key_len": 24, "hash_alg": "hashlib.sha384", "key_size": 192}),
    "A256CBC-HS512": (512, 128, True, {"key_len": 32, "hash_alg": "hashlib.sha512", "key_size": 256}),
    "A128GCM": (128, 96, True, {"key_size": 128}),
    "A192GCM": (192, 96, True, {"key_size": 192}),
    "A256GCM": (256, 96, True, {"key_size": 256}),
}
JWE_DRAFT_ENCS = {
    "C20P": (256, 96, False, {}),
    "XC20P": (256, 192, False, {}),
}
JWE_ZIPS = {"DEF": True}
JWE_RECOMMENDED = {"RSA-OAEP", "A128KW", "A256KW", "dir", "ECDH-ES", "ECDH-ES+A128KW", "ECDH-ES+A256KW",
                   "A128CBC-HS256", "A192CBC-HS384", "A256CBC-HS512", "A128GCM", "A192GCM", "A256GCM", "DEF"}
MAX_DECOMPRESSED = 256000

# B4 ------------------------------------------------------------------------------------------- header parameters
# name -> (validator function name, required)
JWS_HEADER = {
    "alg": ("is_str", True), "jku": ("is_url", False), "jwk": ("is_jwk", False), "kid": ("is_str", False),
    "x5u": ("is_url", False), "x5c": ("is_list_str", False), "x5t": ("is_str", False), "x5t#S256": ("is_str", False),
    "typ": ("is_str", False), "cty": ("is_str", False), "crit": ("is_list_str", False),
}
JWE_HEADER = dict(JWS_HEADER, enc=("is_str", True), zip=("is_str", False))
RFC7797_HEADER = dict(JWS_HEADER, b64=("is_bool", False))
ALG_HEADERS = {
    "AESGCMAlgModel": {"iv": ("is_str", True), "tag": ("is_str", True)},
    "ECDHESAlgModel": {"epk": ("is_jwk", True), "apu": ("is_str", False), "apv": ("is_str", False)},
    "PBES2HSAlgModel": {"p2s": ("is_str", True), "p2c": ("is_int", True)},
    "ECDH1PUAlgModel": {"epk": ("is_jwk", True), "apu": ("is_str", False), "apv": ("is_str", False), "skid": ("is_str", False)},
}
VALIDATOR_KEYS = {"str": "is_str", "list[str]": "is_list_str", "int": "is_int", "bool": "is_bool", "url": "is_url",
                  "jwk": "is_jwk", "none": "not_support"}

# B5 ------------------------------------------------------------------------------------------- JWK parameters
JWK_PARAMS = {  # name -> (validator, required)
    "kty": ("is_str", True), "use": ("in_choices", False), "key_ops": ("in_choices", False), "alg": ("is_str", False),
    "kid": ("is_str", False), "x5u": ("is_url", False), "x5c": ("is_list_str", False), "x5t": ("is_str", False),
    "x5t#S256": ("is_str", False),
}
JWK_USE_CHOICES = ["sig", "enc"]
JWK_KEY_OPS_CHOICES = ["sign", "verify", "encrypt", "decrypt", "wrapKey", "unwrapKey", "deriveKey", "deriveBits"]
USE_KEY_OPS = {"sig": ["sign", "verify"], "enc": ["encrypt", "decrypt", "wrapKey", "unwrapKey", "deriveKey", "deriveBits"]}
# key class -> kty, {member: (private, required)}
KEY_VALUES = {
    "OctKey": ("oct", {"k": (True, True)}),
    "RSAKey": ("RSA", {"n": (False, True), "e": (False, True), "d": (True, False), "p": (True, False), "q": (True, False),
                       "dp": (True, False), "dq": (True, False), "qi": (True, False), "oth": (True, False)}),
    "ECKey": ("EC", {"crv": (False, True), "x": (False, True), "y": (False, True), "d": (True, False)}),
    "OKPKey": ("OKP", {"crv": (False, True), "x": (False, True), "d": (True, False)}),
}
PRIVATE_MEMBERS = {"d", "p", "q", "dp", "dq", "qi", "oth", "k"}
THUMBPRINT_MEMBERS = {  # RFC 7638 3.2 / RFC 8037 2 (kty added by BaseKey.thumbprint)
    "OctKey": {"k", "kty"}, "RSAKey": {"e", "kty", "n"}, "ECKey": {"crv", "kty", "x", "y"}, "OKPKey": {"crv", "kty", "x"},
}
EC_CURVES = {"P-256": "SECP256R1", "P-384": "SECP384R1", "P-521": "SECP521R1", "secp256k1": "SECP256K1"}
OKP_CURVES = {"Ed25519", "Ed448", "X25519", "X448"}

# B6 ------------------------------------------------------------------------------------------- key operations
KEY_OPS = {  # operation -> (use, private)
    "sign": ("sig", True), "verify": ("sig", False), "encrypt": ("enc", False), "decrypt": ("enc", True),
    "wrapKey": ("enc", False), "unwrapKey": ("enc", True), "deriveKey": ("enc", False), "deriveBits": ("enc", None),
}
# (class, method) -> required get_op_key literal(s)
OP_KEY_LITERALS = {
    ("HMACAlgModel", "sign"): {"sign"}, ("HMACAlgModel", "verify"): {"verify"},
    ("RSAAlgModel@jws", "sign"): {"sign"}, ("RSAAlgModel@jws", "verify"): {"verify"},
    ("ECAlgModel", "sign"): {"sign"}, ("ECAlgModel", "verify"): {"verify"},
    ("RSAPSSAlgModel", "sign"): {"sign"}, ("RSAPSSAlgModel", "verify"): {"verify"},
    ("EdDSAAlgModel", "sign"): {"sign"}, ("EdDSAAlgModel", "verify"): {"verify"},
    ("RSAAlgModel@jwe", "encrypt_cek"): {"encrypt"}, ("RSAAlgModel@jwe", "decrypt_cek"): {"decrypt"},
    ("AESAlgModel", "encrypt_cek"): {"wrapKey"}, ("AESAlgModel", "decrypt_cek"): {"unwrapKey"},
    ("AESGCMAlgModel", "encrypt_cek"): {"wrapKey"}, ("AESGCMAlgModel", "decrypt_cek"): {"unwrapKey"},
    ("PBES2HSAlgModel", "encrypt_cek"): {"deriveKey"}, ("PBES2HSAlgModel", "decrypt_cek"): {"deriveKey"},
    ("ECKey", "exchange_derive_key"): {"deriveKey"}, ("OKPKey", "exchange_derive_key"): {"deriveKey"},
}

# B8 ------------------------------------------------------------------------------------------- C18 / C20 sets
CSPRNG = {"secrets.token_bytes", "secrets.token_hex", "os.urandom",
          "cryptography.hazmat.primitives.asymmetric.rsa.generate_private_key",
          "cryptography.hazmat.primitives.asymmetric.ec.generate_private_key"}
UNSAFE_PREFIXES = [b"-----BEGIN ", b"---- BEGIN ", b"ssh-rsa ", b"ssh-dss ", b"ssh-ed25519 ", b"ecdsa-sha2-"]
CRYPTO_OPS = {"sign", "verify", "encrypt", "decrypt", "encrypt_cek", "decrypt_cek", "wrap_cek", "unwrap_cek",
              "wrap_cek_with_auk", "unwrap_cek_with_auk", "compute_cek", "encrypt_agreed_upon_key",
              "decrypt_agreed_upon_key", "encrypt_agreed_upon_key_with_tag", "decrypt_agreed_upon_key_with_tag",
              "prepare_ephemeral_key", "compress", "decompress"}
