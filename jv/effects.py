"""S8 - effects: every store (attribute / subscript assignment, del, augmented assignment, mutating method call)
of every function, with the *object that is mutated* classified by ownership:

  fresh      an object created in this activation (constructor call, display, copy) and not yet escaped by aliasing
  self/cls   the receiver of the enclosing method (with its class)
  param      a parameter (with the classes its static type may denote)
  global     a module-level object / class object / class attribute
  derived    reached through fields of one of the above (owner chain is reported)
  unknown
Aliases through local assignments are followed (bounded); a call result may alias its receiver and arguments
unless the callee is a constructor or a known value-producing external."""
from __future__ import annotations
import ast
from dataclasses import dataclass, field
from typing import Dict, List, Optional, Set, Tuple

from .program import ClassInfo, Ext, FunctionInfo, Module, Program, fn_nodes, norm
from .callgraph import CallGraph

MUTATORS = {"append", "extend", "update", "pop", "remove", "clear", "sort", "reverse", "insert", "setdefault", "add",
            "discard", "popitem", "appendleft", "__setitem__", "__delitem__"}
FRESH_EXT = {"builtins.dict", "builtins.list", "builtins.set", "builtins.tuple", "builtins.bytes", "builtins.str",
             "builtins.int", "builtins.sorted", "copy.deepcopy", "copy.copy", "collections.OrderedDict", "builtins.bytearray",
             "builtins.frozenset", "json.loads", "json.dumps"}
SHALLOW_EXT = {"builtins.dict", "builtins.list", "builtins.tuple", "builtins.set", "builtins.frozenset", "copy.copy", "collections.OrderedDict", "builtins.sorted",
               "builtins.reversed"}
FRESH_METHODS = {"copy", "split", "encode", "decode", "join", "keys", "values", "items", "digest", "format", "strip", "rstrip",
                 "lstrip", "replace", "to_bytes", "hex", "lower", "upper"}


@dataclass
class Root:
    kind: str  # fresh | self | cls | param | global | unknown
    name: str = ""
    classes: Tuple[ClassInfo, ...] = ()
    via: Tuple[str, ...] = ()  # field names walked from the root to the mutated object

    def __repr__(self) -> str:
        v = "".join("." + x for x in self.via)
        c = "/".join(x.name for x in self.classes)
        return f"{self.kind}:{self.name}{v}" + (f"<{c}>" if c else "")


@dataclass
class Effect:
    fn: FunctionInfo
    node: ast.AST  # the statement / call
    kind: str  # attr-set | sub-set | aug | del | mut-call
    target: ast.expr  # the object that is mutated (receiver of the attribute / container)
    field: str  # attribute name or '[]' for item stores / method name for mut-call
    roots: List[Root] = field(default_factory=list)
    owner_classes: Tuple[ClassInfo, ...] = ()  # static classes of the mutated object (or of the owner of the container)

    def __repr__(self) -> str:
        return f"<effect {self.kind} {norm(self.target)[:30]}.{self.field} in {self.fn.short}:{getattr(self.node, 'lineno', 0)} roots={self.roots}>"


class Effects:
    def __init__(self, prog: Program, cg: CallGraph):
        self.prog = prog
        self.cg = cg
        self._by_fn: Dict[int, List[Effect]] = {}

    # ------------------------------------------------------------------ collection
    def of(self, fn: FunctionInfo) -> List[Effect]:
        c = self._by_fn.get(id(fn))
        if c is not None:
            return c
        out: List[Effect] = []
        for n in fn_nodes(fn):
            if isinstance(n, ast.Assign):
                for t in n.targets:
                    self._target(fn, n, t, "set", out)
            elif isinstance(n, ast.AnnAssign) and n.value is not None:
                self._target(fn, n, n.target, "set", out)
            elif isinstance(n, ast.AugAssign):
                self._target(fn, n, n.target, "aug", out)
            elif isinstance(n, ast.Delete):
                for t in n.targets:
                    self._target(fn, n, t, "del", out)
            elif isinstance(n, ast.Call) and isinstance(n.func, ast.Attribute) and n.func.attr in MUTATORS:
                site = self.cg.site_of.get(id(n))
                if site is not None and site.callees:
                    continue  # a repo method that happens to be called update()/add(): handled through the call graph
                obj = n.func.value
                out.append(self._mk(fn, n, "mut-call", obj, n.func.attr))
            elif isinstance(n, (ast.For, ast.comprehension)):
                pass
        self._by_fn[id(fn)] = out
        return out

    def _target(self, fn, stmt, t, mode, out) -> None:
        if isinstance(t, (ast.Tuple, ast.List)):
            for e in t.elts:
                self._target(fn, stmt, e, mode, out)
        elif isinstance(t, ast.Starred):
            self._target(fn, stmt, t.value, mode, out)
        elif isinstance(t, ast.Attribute):
            kind = {"set": "attr-set", "aug": "aug", "del": "del"}[mode]
            out.append(self._mk(fn, stmt, kind, t.value, t.attr))
        elif isinstance(t, ast.Subscript):
            kind = {"set": "sub-set", "aug": "aug", "del": "del"}[mode]
            out.append(self._mk(fn, stmt, kind, t.value, "[]"))

    def _mk(self, fn, node, kind, obj: ast.expr, field_: str) -> Effect:
        e = Effect(fn, node, kind, obj, field_)
        e.roots = self.roots(fn, obj)
        # static classes of the mutated object, or of the object owning the mutated container
        classes, _, _, _ = self.cg._recv_classes(fn, obj)
        owner = obj
        while not classes and isinstance(owner, (ast.Attribute, ast.Subscript)):
            owner = owner.value
            classes, _, _, _ = self.cg._recv_classes(fn, owner)
        e.owner_classes = tuple(classes)
        return e

    # ------------------------------------------------------------------ roots
    def roots(self, fn: FunctionInfo, e: ast.expr, depth: int = 0, via: Tuple[str, ...] = (), seen: Optional[Set[int]] = None) -> List[Root]:
        seen = seen if seen is not None else set()
        if id(e) in seen or depth > 8:
            return [Root("unknown", norm(e)[:30], (), via)]
        seen.add(id(e))
        if isinstance(e, ast.Attribute):
            # static chain to a module-level entity?
            if self.cg._is_static_chain(fn, e):
                r = self.prog.resolve_expr(fn.module, e, fn)
                if isinstance(r, tuple) and r[0] == "var":
                    return [Root("global", f"{r[1].short}.{r[2]}", (), via)]
                if isinstance(r, ClassInfo):
                    return [Root("global", r.short, (r,), via)]
                base = self.prog.resolve_expr(fn.module, e.value, fn)
                if isinstance(base, ClassInfo):
                    return [Root("global", f"{base.short}.{e.attr}", (base,), via)]
                if isinstance(r, Ext) or isinstance(base, Ext):
                    return [Root("global", norm(e), (), via)]
            base_roots = self.roots(fn, e.value, depth + 1, (e.attr,) + via, seen)
            return base_roots + self._shared_field_roots(fn, e, depth, via, seen)
        if isinstance(e, ast.Subscript):
            return self.roots(fn, e.value, depth + 1, ("[]",) + via, seen)
        if isinstance(e, ast.Name):
            return self._name_roots(fn, e, depth, via, seen)
        if isinstance(e, ast.Call):
            return self._call_roots(fn, e, depth, via, seen)
        if isinstance(e, (ast.Dict, ast.List, ast.Set, ast.Tuple, ast.ListComp, ast.DictComp, ast.SetComp, ast.GeneratorExp,
                          ast.Constant, ast.JoinedStr, ast.BinOp, ast.Compare)):
            return [Root("fresh", type(e).__name__, (), via)]
        if isinstance(e, ast.IfExp):
            return self.roots(fn, e.body, depth + 1, via, seen) + self.roots(fn, e.orelse, depth + 1, via, seen)
        if isinstance(e, ast.BoolOp):
            out: List[Root] = []
            for v in e.values:
                out.extend(self.roots(fn, v, depth + 1, via, seen))
            return out
        if isinstance(e, (ast.Starred, ast.Await, ast.NamedExpr)):
            return self.roots(fn, e.value, depth + 1, via, seen)
        return [Root("unknown", norm(e)[:30], (), via)]

    def _shared_field_roots(self, fn, e: ast.Attribute, depth, via, seen) -> List[Root]:
        """`obj.attr` can denote an object shared between instances:
        (a) attr is bound at class level to a mutable object and no method ever gives the instance its own (`self.attr = ...`);
        (b) some method binds the instance attribute to an object that is itself shared (`self.attr = self.<class table>`)."""
        try:
            classes, _, _, _ = self.cg._recv_classes(fn, e.value)
        except Exception:
            return []
        out: List[Root] = []
        for c in classes:
            fam = list(c.mro)
            owner = next((k for k in fam if e.attr in k.class_attrs), None)
            inst_stores = []
            for k in fam:
                for m in k.methods.values():
                    sn = m.self_name
                    if not sn or m.is_classmethod:
                        continue
                    for n in fn_nodes(m):
                        tgs = n.targets if isinstance(n, ast.Assign) else ([n.target] if isinstance(n, ast.AnnAssign) and n.value is not None else [])
                        for t in tgs:
                            if isinstance(t, ast.Attribute) and t.attr == e.attr and isinstance(t.value, ast.Name) and t.value.id == sn:
                                inst_stores.append((m, n.value))
            if owner is not None and not inst_stores:
                v = owner.class_attrs[e.attr]
                if v is not None and not isinstance(v, (ast.Constant, ast.Lambda, ast.JoinedStr, ast.Tuple)):
                    # a display, a constructor call or a reference to a module-level table: one object for every instance
                    out.append(Root("global", f"{owner.short}.{e.attr}", (owner,), via))
            for m, rhs in inst_stores:
                if depth > 5 or id(rhs) in seen:
                    continue
                for r in self.roots(m, rhs, depth + 2, via, set(seen)):
                    if r.kind in ("global", "cls"):
                        out.append(r)
        return out

    def _name_roots(self, fn, e: ast.Name, depth, via, seen) -> List[Root]:
        name = e.id
        owner: Optional[FunctionInfo] = fn
        while owner is not None:
            if owner.name != "<module>" and name in self.cg.local_names(owner):
                break
            owner = owner.parent
        if owner is None:
            r = self.prog.resolve_symbol(fn.module, name, fn=fn)
            if isinstance(r, ClassInfo):
                return [Root("global", r.short, (r,), via)]
            if isinstance(r, tuple) and r[0] == "var":
                return [Root("global", f"{r[1].short}.{r[2]}", (), via)]
            if isinstance(r, (Ext, Module)):
                return [Root("global", getattr(r, "name", name), (), via)]
            return [Root("unknown", name, (), via)]
        out: List[Root] = []
        if name in owner.params:
            if owner.cls is not None and name == owner.self_name:
                out.append(Root("cls" if owner.is_classmethod else "self", name, (owner.cls,), via))
            else:
                classes, _, _, _ = self.cg._recv_classes(owner, e) if owner is fn else ([], [], True, False)
                out.append(Root("param" if owner is fn else "closure", f"{owner.short}.{name}", tuple(classes), via))
        # local definitions: the union over all bindings, except that for a local bound only by plain `name = v` statements the ones that
        # cannot reach this use are left out (`r = self.table; if c: r = r.copy(); r.update(x)`: the update only ever sees the copy)
        live = self._reaching_assigns(owner, name, e) if owner is fn else None
        for n in fn_nodes(owner):
            if isinstance(n, ast.Assign):
                if live is not None and id(n) not in live:
                    continue
                for t in n.targets:
                    out.extend(self._bind_roots(owner, t, n.value, name, depth, via, seen))
            elif isinstance(n, ast.AnnAssign) and n.value is not None:
                out.extend(self._bind_roots(owner, n.target, n.value, name, depth, via, seen))
            elif isinstance(n, (ast.For, ast.comprehension)):
                if name in {x.id for x in ast.walk(n.target) if isinstance(x, ast.Name)}:
                    it = n.iter
                    if isinstance(it, ast.Call) and isinstance(it.func, ast.Name) and it.func.id in ("enumerate", "zip", "reversed", "sorted", "list", "iter") and it.args:
                        for a in it.args:
                            out.extend(self.roots(owner, a, depth + 1, ("[]",) + via, seen))
                    else:
                        out.extend(self.roots(owner, it, depth + 1, ("[]",) + via, seen))
            elif isinstance(n, (ast.With, ast.AsyncWith)):
                for it in n.items:
                    if it.optional_vars is not None and name in {x.id for x in ast.walk(it.optional_vars) if isinstance(x, ast.Name)}:
                        out.extend(self.roots(owner, it.context_expr, depth + 1, via, seen))
            elif isinstance(n, ast.ExceptHandler) and n.name == name:
                out.append(Root("fresh", "exception", (), via))
        if not out:
            out.append(Root("unknown", name, (), via))
        return out

    def _reaching_assigns(self, fn: FunctionInfo, name: str, use: ast.AST) -> Optional[Set[int]]:
        """ids of the `name = v` statements of fn that can reach `use`; None when the name is (also) bound in another way, has fewer than two
        bindings, or the use is not a node of the CFG (then the flow-insensitive union is taken)"""
        from .cfg import cfg_of
        plain = []
        for n in fn_nodes(fn):
            if isinstance(n, ast.Assign) and len(n.targets) == 1 and isinstance(n.targets[0], ast.Name) and n.targets[0].id == name:
                plain.append(n)
            elif any(isinstance(x, ast.Name) and x.id == name and isinstance(x.ctx, (ast.Store, ast.Del)) for x in ast.walk(n)) and \
                    isinstance(n, (ast.Assign, ast.AnnAssign, ast.AugAssign, ast.For, ast.comprehension, ast.With, ast.AsyncWith, ast.NamedExpr, ast.Delete, ast.Import, ast.ImportFrom)):
                if not (isinstance(n, ast.Assign) and n in plain):
                    return None
            elif isinstance(n, ast.ExceptHandler) and n.name == name:
                return None
        if len(plain) + (1 if name in fn.params else 0) < 2:
            return None
        cfg = cfg_of(fn)
        un = cfg.node_of(use)
        nodes = [(st, cfg.node_of(st)) for st in plain]
        if un is None or any(c is None for _s, c in nodes):
            return None
        cn = [c for _s, c in nodes]
        got: Set[int] = set()
        for st, c in nodes:
            others = [x for x in cn if x is not c and x is not un]
            succs = [s_ for s_, lab in cfg.succ[c] if lab != "exc"]
            blocked = others + ([c] if c is not un else [])
            if any(s_ is un or un in cfg.reachable(s_, blocked=[b for b in blocked if b is not un]) for s_ in succs if s_ not in blocked or s_ is un):
                got.add(id(st))
        return got

    def _bind_roots(self, owner, target, value, name, depth, via, seen) -> List[Root]:
        if isinstance(target, ast.Name):
            if target.id == name:
                return self.roots(owner, value, depth + 1, via, seen)
            return []
        if isinstance(target, (ast.Tuple, ast.List)):
            if name in {x.id for x in ast.walk(target) if isinstance(x, ast.Name)}:
                return self.roots(owner, value, depth + 1, ("[]",) + via, seen)
        return []

    def _call_roots(self, fn, e: ast.Call, depth, via, seen) -> List[Root]:
        site = self.cg.site_of.get(id(e))
        if site is None:
            return [Root("unknown", norm(e)[:30], (), via)]
        if site.kind == "ctor":
            return [Root("fresh", "new " + (site.recv_classes[0].split(".")[-1] if site.recv_classes else "?"), (), via)]
        func = e.func
        meth = func.attr if isinstance(func, ast.Attribute) else None
        if not site.callees:
            # shallow copies: the copy itself is a new object, what it *contains* is shared with the original
            if via and (meth == "copy" and isinstance(func, ast.Attribute) and not e.args):
                return self.roots(fn, func.value, depth + 1, via, seen)
            if via and any(x in SHALLOW_EXT for x in site.ext) and len(e.args) == 1 and not e.keywords:
                return self.roots(fn, e.args[0], depth + 1, via, seen)
            if any(x in FRESH_EXT for x in site.ext) or meth in FRESH_METHODS:
                return [Root("fresh", (site.ext or ["?"])[0], (), via)]
            if meth in ("get", "pop", "setdefault", "__getitem__") and isinstance(func, ast.Attribute):
                return self.roots(fn, func.value, depth + 1, ("[]",) + via, seen)
            # unknown external: may hand back (part of) its receiver; arguments are treated as values
            if isinstance(func, ast.Attribute) and not self.cg._is_static_chain(fn, func):
                return self.roots(fn, func.value, depth + 1, ("()",) + via, seen)
            return [Root("fresh", (site.ext or ["?"])[0], (), via)]
        out: List[Root] = []
        for c in site.callees:
            rets = [n.value for n in fn_nodes(c) if isinstance(n, ast.Return) and n.value is not None]
            if not rets:
                continue
            for r in rets:
                for rt in self.roots(c, r, depth + 1, via, set(seen)):
                    if rt.kind in ("self", "cls") and isinstance(func, ast.Attribute):
                        for x in self.roots(fn, func.value, depth + 1, rt.via, seen):
                            out.append(x)
                    elif rt.kind == "param":
                        pname = rt.name.rsplit(".", 1)[-1]
                        a = self.cg.arg_for_param(site, c, pname)
                        if a is not None:
                            out.extend(self.roots(fn, a, depth + 1, rt.via, seen))
                        else:
                            out.append(Root("unknown", rt.name, rt.classes, rt.via))
                    else:
                        out.append(rt)
        return out or [Root("fresh", "value of " + site.name, (), via)]

    # ------------------------------------------------------------------ summaries
    def mutated_params(self, fn: FunctionInfo, _stack: Optional[Set[int]] = None) -> Set[str]:
        """parameters (incl. self) whose referent (or something reachable from it) this function may mutate,
        directly or through callees"""
        cached = fn.__dict__.get("_mutparams")
        if cached is not None:
            return cached
        _stack = _stack if _stack is not None else set()
        if id(fn) in _stack:
            return set()
        _stack.add(id(fn))
        out: Set[str] = set()
        for ef in self.of(fn):
            if ef.kind == "attr-set" and fn.name == "__init__" and isinstance(ef.target, ast.Name) and ef.target.id == fn.self_name:
                continue
            for r in ef.roots:
                if r.kind in ("param", "self", "cls"):
                    out.add(r.name.rsplit(".", 1)[-1])
        for s in self.cg.calls_in(fn):
            for c in s.callees:
                if c is fn:
                    continue
                mp = self.mutated_params(c, _stack)
                for p in mp:
                    if p == c.self_name:
                        if isinstance(s.node, ast.Call) and isinstance(s.node.func, ast.Attribute) and s.kind not in ("ctor", "direct"):
                            a: Optional[ast.expr] = s.node.func.value
                        elif isinstance(s.node, ast.Attribute):
                            a = s.node.value
                        else:
                            a = None
                    else:
                        a = self.cg.arg_for_param(s, c, p)
                    if a is None:
                        continue
                    for r in self.roots(fn, a):
                        if r.kind in ("param", "self", "cls"):
                            out.add(r.name.rsplit(".", 1)[-1])
        _stack.discard(id(fn))
        fn.__dict__["_mutparams"] = out
        return out
