"""S2 - typed layer front end: receiver types as inferred by mypy (run in a worker process, cached)."""
from __future__ import annotations
import ast
import json
import os
import subprocess
import sys
from dataclasses import dataclass
from typing import Dict, List, Optional

from .program import AnalysisError, Module, Program

CACHE_DIR = os.environ.get("JV_CACHE", os.path.join(os.path.dirname(os.path.dirname(os.path.abspath(__file__))), ".cache"))


@dataclass(frozen=True)
class TypeDesc:
    classes: tuple  # fully qualified class names (mypy style: joserfc.rfc7515.model.JWSAlgModel)
    any: bool = False
    typeobj: bool = False  # the expression denotes the class object itself (Type[C] / constructor)
    callable: bool = False

    @property
    def known(self) -> bool:
        return bool(self.classes) and not self.any


UNKNOWN = TypeDesc((), True)


class Types:
    def __init__(self, prog: Program, use_cache: bool = True):
        self.prog = prog
        os.makedirs(CACHE_DIR, exist_ok=True)
        import hashlib
        with open(os.path.join(os.path.dirname(os.path.abspath(__file__)), "typed_worker.py"), "rb") as fh_:
            wv = hashlib.sha256(fh_.read()).hexdigest()[:8]  # the worker's own text: a changed worker must not read what the old one wrote
        path = os.path.join(CACHE_DIR, f"types-{prog.digest[:32]}-{wv}.json")
        if not (use_cache and os.path.exists(path)):
            self._run_worker(prog.repo, path)
        try:
            with open(path) as fh:
                data = json.load(fh)
        except Exception as e:
            raise AnalysisError(f"typed layer: unreadable cache {path}: {e}")
        self.errors = data.get("errors", 0)
        self.diagnostics: List[str] = data.get("diagnostics", [])
        self.tab: Dict[str, Dict[str, dict]] = data["modules"]
        missing = [m for m in prog.modules if m not in self.tab]
        if missing:
            raise AnalysisError(f"typed layer: modules without types: {missing[:3]}")

    @staticmethod
    def _run_worker(repo: str, out: str) -> None:
        worker = os.path.join(os.path.dirname(os.path.abspath(__file__)), "typed_worker.py")
        env = dict(os.environ)
        env.pop("MYPYPATH", None)
        try:
            p = subprocess.run([sys.executable, worker, repo, out], capture_output=True, text=True, timeout=300, env=env)
        except Exception as e:  # pragma: no cover
            raise AnalysisError(f"typed layer: cannot run mypy worker: {e}")
        if p.returncode != 0 or not os.path.exists(out):
            raise AnalysisError("typed layer: mypy worker failed (rc=%s): %s" % (p.returncode, (p.stderr or p.stdout)[-600:]))

    def of(self, m: Module, node: ast.AST) -> TypeDesc:
        key = f"{node.lineno}:{node.col_offset}:{node.end_lineno}:{node.end_col_offset}"  # type: ignore[attr-defined]
        mname = getattr(node, "_jv_module", None)  # a node inlined from another module keeps that module's positions
        ent = self.tab.get(m.name if mname is None else (("joserfc." + mname) if mname else "joserfc"), {}).get(key)
        if ent is None:
            return UNKNOWN
        return TypeDesc(tuple(ent.get("c", ())), bool(ent.get("a")), bool(ent.get("t")), bool(ent.get("f")))

    def coverage(self) -> Dict[str, int]:
        return {"modules": len(self.tab), "typed_expressions": sum(len(v) for v in self.tab.values()),
                "mypy_errors": self.errors}
