#!/usr/bin/env python3
"""Systematic single-edit mutation sweep (testing the checker at scale, informational).

For every mutant of /repo/src/joserfc produced by a small set of AST mutation operators:
  1. write it into a scratch copy (src + tests) under $TMPDIR, removed immediately afterwards;
  2. run the pinned suite; a mutant *survives* when nothing fails beyond the 4 tests that always fail here;
  3. for survivors run all 20 quick checks with --repo <scratch> and record which properties fire.
Output: JSON lines (one per mutant) + a summary.  Survivors that no check flags are the interesting ones:
either equivalent / property-irrelevant mutants or gaps of the rules (triaged by hand, see DESIGN.md).

usage: mutsweep.py [--jobs 16] [--files a.py,b.py] [--limit N] [--out FILE] [--shard i/n]
"""
import ast
import concurrent.futures as cf
import json
import os
import random
import shutil
import subprocess
import sys
import tempfile
import time

VERIF = os.path.dirname(os.path.dirname(os.path.abspath(__file__)))
REPO = os.environ.get("JV_REPO", "/repo")
PY = "/venv/bin/python"
ALWAYS_FAIL = {"test_ECDH_ES_with_EC_key", "test_import_p512_key", "test_ec_incorrect_curve", "test_ES512"}
PROPS = ["C%02d" % i for i in range(1, 21)]
SKIP_FILES = {"errors.py", "__init__.py"}
OPS2 = "--ops2" in sys.argv
OPS3 = "--ops3" in sys.argv
ATTR_SIBLINGS = [("protected", "header"), ("protected", "unprotected"), ("unprotected", "header"), ("recipient_key", "sender_key"), ("private_key", "public_key"),
                 ("payload", "segments"), ("bytes_segments", "base64_segments"), ("raw_value", "original_value"), ("dict_value", "_dict_value"),
                 ("key_size", "cek_size"), ("iv_size", "tag_size"), ("allowed", "recommended"), ("now", "leeway"), ("essential", "allow_blank")]

CMP_SWAP = {ast.Lt: [ast.LtE, ast.Gt], ast.LtE: [ast.Lt], ast.Gt: [ast.GtE, ast.Lt], ast.GtE: [ast.Gt], ast.Eq: [ast.NotEq], ast.NotEq: [ast.Eq],
            ast.In: [ast.NotIn], ast.NotIn: [ast.In], ast.Is: [ast.IsNot], ast.IsNot: [ast.Is]}


def seg(src_lines, node):
    """(start_offset, end_offset) of a node in the joined source"""
    starts = [0]
    for ln in src_lines:
        starts.append(starts[-1] + len(ln))
    def off(line, col):
        # col is in utf8 bytes; sources are ASCII enough
        return starts[line - 1] + len(src_lines[line - 1].encode()[:col].decode())
    return off(node.lineno, node.col_offset), off(node.end_lineno, node.end_col_offset)


def mutants_of(path):
    src = open(path).read()
    lines = src.splitlines(keepends=True)
    tree = ast.parse(src)
    parents = {}
    for p in ast.walk(tree):
        for c in ast.iter_child_nodes(p):
            parents[id(c)] = p
    out = []

    def add(node, new_text, op):
        a, b = seg(lines, node)
        m = src[:a] + new_text + src[b:]
        try:
            ast.parse(m)
        except SyntaxError:
            return
        if m != src:
            out.append({"line": node.lineno, "op": op, "old": src[a:b][:120], "new": new_text[:120], "src": m})

    in_docstring = set()
    for n in ast.walk(tree):
        if isinstance(n, (ast.FunctionDef, ast.ClassDef, ast.Module)) and n.body and isinstance(n.body[0], ast.Expr) and isinstance(n.body[0].value, ast.Constant) \
                and isinstance(n.body[0].value.value, str):
            in_docstring.add(id(n.body[0]))
            in_docstring.add(id(n.body[0].value))
    for n in ast.walk(tree):
        if id(n) in in_docstring:
            continue
        par = parents.get(id(n))
        # annotations / type aliases / __all__ are not behaviour
        if isinstance(par, (ast.AnnAssign,)) and par.annotation is n:
            continue
        if OPS3:
            _ops3(n, par, parents, add)
            continue
        if OPS2 and not isinstance(n, (ast.Call, ast.Name)):
            continue
        if OPS2:
            pass
        elif isinstance(n, ast.Compare) and len(n.ops) == 1:
            for alt in CMP_SWAP.get(type(n.ops[0]), []):
                c = ast.Compare(left=n.left, ops=[alt()], comparators=n.comparators)
                add(n, ast.unparse(c), f"cmp:{type(n.ops[0]).__name__}->{alt.__name__}")
        elif isinstance(n, ast.BoolOp):
            alt = ast.Or() if isinstance(n.op, ast.And) else ast.And()
            add(n, ast.unparse(ast.BoolOp(op=alt, values=n.values)), "boolop-swap")
            for i in range(len(n.values)):
                rest = [v for j, v in enumerate(n.values) if j != i]
                add(n, ast.unparse(rest[0] if len(rest) == 1 else ast.BoolOp(op=n.op, values=rest)), f"boolop-drop{i}")
        elif isinstance(n, ast.UnaryOp) and isinstance(n.op, ast.Not):
            add(n, "(" + ast.unparse(n.operand) + ")", "not-drop")
        elif isinstance(n, (ast.If, ast.While)) and not (isinstance(n.test, ast.UnaryOp) and isinstance(n.test.op, ast.Not)):
            add(n.test, "not (" + ast.unparse(n.test) + ")", "cond-negate")
        elif isinstance(n, ast.Constant) and not isinstance(par, (ast.Expr, ast.JoinedStr, ast.FormattedValue)):
            v = n.value
            if isinstance(v, bool):
                add(n, repr(not v), "const-bool")
            elif isinstance(v, int):
                add(n, repr(v + 1), "const+1")
                if v > 0:
                    add(n, repr(v - 1), "const-1")
            elif isinstance(v, str) and v and len(v) < 24 and not isinstance(par, ast.Subscript):
                if isinstance(par, (ast.Dict, ast.Compare, ast.Call, ast.Assign, ast.List, ast.Tuple, ast.keyword)):
                    add(n, repr(v + "x"), "const-str")
            elif isinstance(v, bytes) and v and len(v) < 12:
                add(n, repr(v + b"x"), "const-bytes")
        elif isinstance(n, ast.BinOp) and isinstance(n.op, (ast.Add, ast.Sub, ast.FloorDiv, ast.Mult)):
            swap = {ast.Add: ast.Sub, ast.Sub: ast.Add, ast.FloorDiv: ast.Mult, ast.Mult: ast.FloorDiv}[type(n.op)]
            if not (isinstance(n.left, ast.Constant) and isinstance(n.left.value, (str, bytes))):
                add(n, ast.unparse(ast.BinOp(left=n.left, op=swap(), right=n.right)), f"arith:{type(n.op).__name__}")
        elif isinstance(n, ast.Return) and n.value is not None and isinstance(n.value, ast.Constant) and isinstance(n.value.value, bool):
            pass  # covered by const-bool
        if isinstance(n, ast.Call) and OPS2:
            # second operator family (run with --ops2): argument swaps, dropped keyword arguments
            pos = [a for a in n.args if not isinstance(a, ast.Starred)]
            if len(pos) >= 2 and len(pos) == len(n.args):
                for k in range(len(pos) - 1):
                    if ast.dump(pos[k]) != ast.dump(pos[k + 1]) and not (isinstance(pos[k], ast.Constant) and isinstance(pos[k + 1], ast.Constant)):
                        c2 = ast.Call(func=n.func, args=pos[:k] + [pos[k + 1], pos[k]] + pos[k + 2:], keywords=n.keywords)
                        add(n, ast.unparse(c2), f"arg-swap{k}")
            for k, kw in enumerate(n.keywords):
                if kw.arg is not None:
                    c2 = ast.Call(func=n.func, args=n.args, keywords=n.keywords[:k] + n.keywords[k + 1:])
                    add(n, ast.unparse(c2), f"drop-kwarg:{kw.arg}")
        if isinstance(n, ast.Name) and OPS2 and isinstance(n.ctx, ast.Load) and not isinstance(par, (ast.Call,)) or \
                (isinstance(n, ast.Name) and OPS2 and isinstance(n.ctx, ast.Load) and isinstance(par, ast.Call) and n in par.args):
            # replace a parameter by another parameter of the same function
            f = par
            while f is not None and not isinstance(f, (ast.FunctionDef, ast.AsyncFunctionDef)):
                f = parents.get(id(f))
            if f is not None:
                ps = [a.arg for a in f.args.args if a.arg not in ("self", "cls")]
                if n.id in ps:
                    for other in ps:
                        if other != n.id:
                            add(n, other, f"param-swap:{n.id}->{other}")
        if isinstance(n, ast.stmt) and isinstance(par, (ast.FunctionDef, ast.If, ast.For, ast.While, ast.Try, ast.With, ast.ExceptHandler)):
            body_owner = None
            for fld in ("body", "orelse", "finalbody"):
                if n in getattr(par, fld, []):
                    body_owner = getattr(par, fld)
            if body_owner is None:
                continue
            if isinstance(n, ast.Expr) and isinstance(n.value, ast.Call):
                add(n, "pass", "del-call")
            elif isinstance(n, ast.Raise):
                add(n, "pass", "del-raise")
            elif isinstance(n, ast.If) and not n.orelse and all(isinstance(x, (ast.Raise, ast.Return)) for x in n.body):
                add(n, "pass", "del-guard")
            elif isinstance(n, ast.Assert):
                pass
            elif isinstance(n, ast.Assign) and len(n.targets) == 1 and isinstance(n.targets[0], (ast.Attribute, ast.Subscript)):
                add(n, "pass", "del-store")
    # de-duplicate
    seen = set()
    uniq = []
    for m in out:
        k = (m["line"], m["op"], m["new"])
        if k not in seen:
            seen.add(k)
            uniq.append(m)
    return uniq


def _ops3(n, par, parents, add):
    """third operator family (--ops3): adjacent statement swaps, a local replaced by another local, `return None`, slice bounds +-1,
    loops over all but the first / last element, sibling attributes"""
    def func_of(x):
        f = x
        while f is not None and not isinstance(f, (ast.FunctionDef, ast.AsyncFunctionDef)):
            f = parents.get(id(f))
        return f
    simple = (ast.Assign, ast.AnnAssign, ast.AugAssign, ast.Expr)
    for fld in ("body", "orelse", "finalbody"):
        body = getattr(n, fld, None)
        if isinstance(body, list) and body and isinstance(body[0], ast.stmt) and not isinstance(n, (ast.Module, ast.ClassDef)):
            for a, b in zip(body, body[1:]):
                if isinstance(a, simple) and isinstance(b, simple) and not (isinstance(a, ast.Expr) and isinstance(a.value, ast.Constant)):
                    # swap the two statements (text of both lines, same indentation)
                    fake = ast.If(test=ast.Constant(value=True), body=[b, a], orelse=[])
                    ind = " " * a.col_offset
                    txt = ("\n" + ind).join(ast.unparse(x).replace("\n", "\n" + ind) for x in (b, a))
                    span = ast.Expr(value=ast.Constant(value=0))
                    span.lineno, span.col_offset, span.end_lineno, span.end_col_offset = a.lineno, a.col_offset, b.end_lineno, b.end_col_offset
                    add(span, txt, "stmt-swap")
    if isinstance(n, ast.Return) and n.value is not None and not isinstance(n.value, ast.Constant):
        add(n.value, "None", "return-none")
    if isinstance(n, ast.Subscript) and isinstance(n.slice, ast.Slice) and isinstance(n.ctx, ast.Load):
        sl = n.slice
        for which in ("lower", "upper"):
            v = getattr(sl, which)
            for d in (1, -1):
                nv = ast.BinOp(left=v, op=ast.Add() if d > 0 else ast.Sub(), right=ast.Constant(value=1)) if v is not None else \
                    (ast.Constant(value=1) if which == "lower" and d > 0 else (ast.UnaryOp(op=ast.USub(), operand=ast.Constant(value=1)) if which == "upper" and d < 0 else None))
                if nv is None:
                    continue
                if isinstance(v, ast.Constant) and isinstance(v.value, int):
                    nv = ast.Constant(value=v.value + d)
                s2 = ast.Slice(lower=nv if which == "lower" else sl.lower, upper=nv if which == "upper" else sl.upper, step=sl.step)
                add(n, ast.unparse(ast.Subscript(value=n.value, slice=s2, ctx=ast.Load())), f"slice-{which}{'+' if d > 0 else '-'}1")
    if isinstance(n, (ast.For, ast.comprehension)) and isinstance(n.iter, (ast.Name, ast.Attribute)):
        add(n.iter, ast.unparse(n.iter) + "[1:]", "iter-skip-first")
        add(n.iter, ast.unparse(n.iter) + "[:-1]", "iter-skip-last")
    if isinstance(n, ast.Attribute) and isinstance(n.ctx, ast.Load):
        for a, b in ATTR_SIBLINGS:
            for x, y in ((a, b), (b, a)):
                if n.attr == x:
                    add(n, ast.unparse(n.value) + "." + y, f"attr:{x}->{y}")
    if isinstance(n, ast.Name) and isinstance(n.ctx, ast.Load) and isinstance(par, (ast.Call, ast.Return, ast.keyword, ast.Compare, ast.Subscript)):
        f = func_of(par)
        if f is not None:
            ps = {a.arg for a in f.args.args + f.args.kwonlyargs}
            locs = []
            for x in ast.walk(f):
                if isinstance(x, ast.Name) and isinstance(x.ctx, ast.Store) and x.id not in locs and x.id not in ps:
                    locs.append(x.id)
            if n.id in locs:
                for other in locs:
                    if other != n.id:
                        add(n, other, f"local-swap:{n.id}->{other}")


def run(cmd, cwd=None, env=None, timeout=600):
    try:
        p = subprocess.run(cmd, cwd=cwd, env=env, capture_output=True, text=True, timeout=timeout)
        return p.returncode, p.stdout + p.stderr
    except subprocess.TimeoutExpired:
        return 124, "timeout"


def evaluate(job):
    rel, m = job
    tmp = tempfile.mkdtemp(prefix="jv-mut-")
    rec = {"file": rel, "line": m["line"], "op": m["op"], "old": m["old"], "new": m["new"]}
    try:
        shutil.copytree(os.path.join(REPO, "src"), os.path.join(tmp, "src"), ignore=shutil.ignore_patterns("__pycache__", "*.egg-info"))
        shutil.copytree(os.path.join(REPO, "tests"), os.path.join(tmp, "tests"), ignore=shutil.ignore_patterns("__pycache__"))
        for f in ("pyproject.toml", "setup.py"):
            if os.path.exists(os.path.join(REPO, f)):
                shutil.copy(os.path.join(REPO, f), tmp)
        with open(os.path.join(tmp, "src", "joserfc", rel), "w") as fh:
            fh.write(m["src"])
        env = dict(os.environ, PYTHONPATH=os.path.join(tmp, "src"), PYTHONDONTWRITEBYTECODE="1")
        rc, o = run([PY, "-m", "pytest", "-q", "-p", "no:cacheprovider", "-x", "--deselect", "tests/jwe/test_compact.py::TestJWECompact::test_ECDH_ES_with_EC_key",
                     "--deselect", "tests/jwk/test_ec_key.py::TestECKey::test_import_p512_key", "--deselect", "tests/jws/test_errors.py::TestJWSErrors::test_ec_incorrect_curve",
                     "--deselect", "tests/jws/test_examples.py::TestJWSExamples::test_ES512", "--timeout=120"], cwd=tmp, env=env, timeout=900)
        rec["suite_rc"] = rc
        if rc != 0:
            rec["survives"] = False
            return rec
        rec["survives"] = True
        e2 = dict(os.environ, JV_CACHE=os.path.join(tmp, ".jvcache"))
        rc, o = run([PY, "-m", "jv", "all", "--repo", tmp, "--no-write"], cwd=VERIF, env=e2, timeout=900)
        fired = {}
        cur = None
        rules = {}
        for ln in o.splitlines():
            if len(ln) > 4 and ln[0] == "C" and ln[1:3].isdigit() and ln[3:5] == " [":
                cur = ln[:3]
            elif (ln.startswith("  R") or ln.startswith("  E")) and cur:
                rules.setdefault(cur, set()).add(ln.split()[0])
            elif ln.startswith("VIOLATION property="):
                p = ln.split("property=")[1].split()[0]
                fired[p] = {"rc": 1, "rules": sorted(rules.get(p, []))}
            elif ln.startswith("ANALYSIS-ERROR property="):
                p = ln.split("property=")[1].split()[0]
                fired.setdefault(p, {"rc": 2, "rules": []})
        rec["fired"] = fired
        return rec
    except Exception as e:  # keep the sweep going
        rec["error"] = f"{type(e).__name__}: {e}"
        return rec
    finally:
        shutil.rmtree(tmp, ignore_errors=True)


def main():
    args = sys.argv[1:]
    jobs = 16
    files = None
    limit = None
    outp = "mutsweep.jsonl"
    shard = None
    for i, a in enumerate(args):
        if a == "--jobs":
            jobs = int(args[i + 1])
        if a == "--files":
            files = args[i + 1].split(",")
        if a == "--limit":
            limit = int(args[i + 1])
        if a == "--out":
            outp = args[i + 1]
        if a == "--shard":
            shard = tuple(int(x) for x in args[i + 1].split("/"))
    root = os.path.join(REPO, "src", "joserfc")
    work = []
    for d, _ds, fs in os.walk(root):
        for f in sorted(fs):
            if not f.endswith(".py") or f in SKIP_FILES:
                continue
            rel = os.path.relpath(os.path.join(d, f), root)
            if files and rel not in files:
                continue
            if rel.endswith("types.py"):
                continue
            for m in mutants_of(os.path.join(d, f)):
                work.append((rel, m))
    random.Random(int(os.environ.get("VERIF_SEED", "1"))).shuffle(work)
    if shard:
        work = [w for i, w in enumerate(work) if i % shard[1] == shard[0]]
    if limit:
        work = work[:limit]
    print(f"{len(work)} mutants, {jobs} workers", flush=True)
    t0 = time.time()
    n = surv = flagged = 0
    with open(outp, "w") as fh, cf.ThreadPoolExecutor(max_workers=jobs) as ex:
        for rec in ex.map(evaluate, work):
            n += 1
            if rec.get("survives"):
                surv += 1
                if rec.get("fired"):
                    flagged += 1
            fh.write(json.dumps(rec) + "\n")
            fh.flush()
            if n % 50 == 0:
                print(f"{n}/{len(work)} done, survivors {surv}, flagged {flagged}, {time.time() - t0:.0f}s", flush=True)
    print(f"done: {n} mutants, {surv} survive the suite, {flagged} of the survivors are flagged by at least one check, wall {time.time() - t0:.0f}s")


if __name__ == "__main__":
    main()
