#!/venv/bin/python
"""Run all 20 quick checks on every behaviour-preserving patch of /verif/benign/<id>/patch.diff (applied to a scratch copy of /repo/src under $TMPDIR).
Every exit code other than 0 is a defect of the checker.  usage: benigncheck.py [--jobs N] [id ...]"""
import concurrent.futures as cf, json, os, re, shutil, subprocess, sys, tempfile

VERIF = os.path.dirname(os.path.dirname(os.path.abspath(__file__)))
REPO = os.environ.get("JV_REPO", "/repo")
ids = [a for a in sys.argv[1:] if not a.startswith("--") and not a.isdigit()]
jobs = int(sys.argv[sys.argv.index("--jobs") + 1]) if "--jobs" in sys.argv else 6
if not ids:
    ids = sorted(os.listdir(os.path.join(VERIF, "benign")))


def one(sid):
    d = tempfile.mkdtemp(prefix="jv-benign-")
    try:
        shutil.copytree(os.path.join(REPO, "src"), os.path.join(d, "src"))
        r = subprocess.run(["patch", "-p1", "-s", "-i", os.path.join(VERIF, "benign", sid, "patch.diff")], cwd=d, capture_output=True, text=True)
        if r.returncode != 0:
            return sid, -1, ["patch does not apply: " + r.stdout[-200:]]
        r = subprocess.run(["/venv/bin/python", "-m", "jv", "all", "--repo", d, "--no-write"], cwd=VERIF, capture_output=True, text=True)
        lines = [l for l in r.stdout.splitlines() if re.match(r"\s+(R\d\d|E\d|J\d)", l) or l.startswith("ANALYSIS-ERROR")]
        return sid, r.returncode, lines
    finally:
        shutil.rmtree(d, ignore_errors=True)


bad = 0
with cf.ThreadPoolExecutor(jobs) as ex:
    for sid, rc, lines in ex.map(one, ids):
        if rc != 0:
            bad += 1
            rules = sorted({re.sub(r"\[.*?\]", "", l.split()[0]) if not l.startswith("ANALYSIS") else "ERR:" + l.split()[2].rstrip(":") for l in lines})
            print(f"{sid} rc={rc} {rules}")
            if "--verbose" in sys.argv:
                for l in lines[:12]:
                    print("    " + l[:260])
print(f"benigncheck: {len(ids)} patches, {bad} with a non-zero exit")
sys.exit(1 if bad else 0)
