#!/usr/bin/env python3
"""Confirm a seeded change and run the checks against it.

usage: seedcheck.py <dir with patch.diff + demo.py> [--suite] [--props C01,C05 | --all]

Creates a scratch git worktree of /repo under $TMPDIR, applies patch.diff, optionally runs the pinned suite,
runs demo.py with and without the patch, runs the selected quick checks with --repo <worktree>, prints a JSON
summary and removes the worktree (with its build output) again."""
import json
import os
import shutil
import subprocess
import sys
import tempfile

VERIF = os.path.dirname(os.path.dirname(os.path.abspath(__file__)))
PY = "/venv/bin/python"
ALWAYS_FAIL = {"test_ECDH_ES_with_EC_key", "test_import_p512_key", "test_ec_incorrect_curve", "test_ES512"}


def run(cmd, cwd=None, env=None, timeout=900):
    p = subprocess.run(cmd, cwd=cwd, env=env, capture_output=True, text=True, timeout=timeout)
    return p.returncode, p.stdout + p.stderr


def main():
    args = sys.argv[1:]
    seed = os.path.abspath(args[0])
    do_suite = "--suite" in args
    props = None
    if "--all" in args:
        props = ["C%02d" % i for i in range(1, 21)]
    for i, a in enumerate(args):
        if a == "--props":
            props = args[i + 1].split(",")
    wt = tempfile.mkdtemp(prefix="jv-seed-")
    os.rmdir(wt)
    out = {"seed": seed}
    try:
        rc, o = run(["git", "-C", "/repo", "worktree", "add", "-q", "--detach", wt, "HEAD"])
        if rc:
            print(o)
            return 2
        env = dict(os.environ, PYTHONPATH=os.path.join(wt, "src"))
        demo = os.path.join(seed, "demo.py")
        # demo on the clean tree
        if os.path.exists(demo):
            shutil.copy(demo, os.path.join(wt, "_demo.py"))
            rc, o = run([PY, "_demo.py"], cwd=wt, env=env)
            out["demo_clean_rc"] = rc
            if rc:
                out["demo_clean_tail"] = o[-400:]
        rc, o = run(["git", "apply", os.path.join(seed, "patch.diff")], cwd=wt)
        out["apply_rc"] = rc
        if rc:
            out["apply_err"] = o[-400:]
            print(json.dumps(out, indent=1))
            return 2
        if os.path.exists(demo):
            rc, o = run([PY, "_demo.py"], cwd=wt, env=env)
            out["demo_patched_rc"] = rc
            out["demo_patched_tail"] = o[-300:]
        if do_suite:
            rc, o = run([PY, "-m", "pytest", "-q", "-p", "no:cacheprovider", "-x", "--deselect", "nothing"], cwd=wt, env=env) if False else \
                run([PY, "-m", "pytest", "-q", "-p", "no:cacheprovider"], cwd=wt, env=env)
            failed = sorted({ln.split("::")[-1].split(" ")[0] for ln in o.splitlines() if ln.startswith("FAILED")})
            out["suite_tail"] = o.strip().splitlines()[-1] if o.strip() else ""
            out["suite_extra_failures"] = [f for f in failed if f not in ALWAYS_FAIL]
        if props:
            fired = {}
            for p in props:
                e2 = dict(os.environ, JV_CACHE=os.path.join(wt, ".jvcache"))
                rc, o = run([PY, "-m", "jv", "check", p, "--repo", wt, "--no-write"], cwd=VERIF, env=e2)
                rules = sorted({ln.split()[0] for ln in o.splitlines() if ln.startswith("  R") or ln.startswith("  E")})
                if rc != 0:
                    fired[p] = {"rc": rc, "rules": rules, "first": next((ln.strip() for ln in o.splitlines() if ln.startswith("  R") or ln.startswith("  E") or ln.startswith("ANALYSIS")), "")[:260]}
            out["checks_fired"] = fired
        print(json.dumps(out, indent=1))
        return 0
    finally:
        run(["git", "-C", "/repo", "worktree", "remove", "--force", wt])
        shutil.rmtree(wt, ignore_errors=True)


if __name__ == "__main__":
    sys.exit(main())
