#!/usr/bin/env python3
"""Markdown table of /verif/seeded/*/meta.json for DESIGN.md section 11.6 (which checks catch which seeded change)."""
import glob
import json
import os
import re

VERIF = os.path.dirname(os.path.dirname(os.path.abspath(__file__)))
rows = []
for m in sorted(glob.glob(os.path.join(VERIF, "seeded", "*", "meta.json"))):
    d = json.load(open(m))
    title = re.sub(r"^C\d\d\s*(seed\s*\w+|/\s*(change|seed)\s*\w+)?\s*[-–:]+\s*", "", d.get("title", "")).strip()
    title = re.sub(r"\s+", " ", title)[:110]
    own = d["property"]
    fired = d.get("checks_that_fire", {})
    ownr = ", ".join(fired.get(own, {}).get("rules", [])) or "—"
    others = "; ".join(f"{k} {', '.join(v['rules']) or ('exit ' + str(v['exit']))}" for k, v in sorted(fired.items()) if k != own) or "—"
    hist = "yes" if d.get("history") else ""
    rows.append(f"| {d['id']} | {title} | {ownr} | {others} | {hist} |")
print("| seed | change (as titled by its author) | rules of its own property that fire | other checks that fire | rule added / strengthened because of it |")
print("|---|---|---|---|---|")
print("\n".join(rows))
