#!/venv/bin/python
"""Store evaluated seeds under /verif/seeded/<id>/ with a meta.json.

usage: storeseeds.py <seed-src-dir> <first-eval-dir> <final-eval-dir> <letters: a=i,b=j> <origin text> [--history-file F]

<first-eval-dir> holds the seedcheck.py --suite --all output for the checker as it was when the seed arrived,
<final-eval-dir> the output after the checker was strengthened.  The history file maps seed id -> text for seeds missed at first.
"""
import json, os, re, shutil, sys

src, first, final, letters, origin = sys.argv[1:6]
hist = {}
if "--history-file" in sys.argv:
    hist = json.load(open(sys.argv[sys.argv.index("--history-file") + 1]))
lm = dict(x.split("=") for x in letters.split(","))
for name in sorted(os.listdir(src)):
    prop, x = name.split("-")
    sid = f"{prop}-{lm[x]}"
    dst = os.path.join("/verif/seeded", sid)
    os.makedirs(dst, exist_ok=True)
    for f in ("patch.diff", "demo.py", "notes.md"):
        if os.path.exists(os.path.join(src, name, f)):
            shutil.copy(os.path.join(src, name, f), os.path.join(dst, f))
    notes = open(os.path.join(dst, "notes.md")).read() if os.path.exists(os.path.join(dst, "notes.md")) else ""
    title = notes.splitlines()[0].lstrip("# ").strip() if notes else sid
    m = re.search(r"^##[^\n]*(needed|needs|manifest|see it)[^\n]*\n(.*?)(?=^## |\Z)", notes, re.S | re.M | re.I)
    needs = m.group(2).strip() if m else ""
    d0 = json.load(open(os.path.join(first, name + ".json")))
    d1 = json.load(open(os.path.join(final, name + ".json")))
    fired = {k: {"exit": v["rc"], "rules": v["rules"], "first_line": v.get("first", "")} for k, v in d1["checks_fired"].items() if v["rc"] == 1}
    own0 = d0["checks_fired"].get(prop, {}).get("rc") == 1
    meta = {
        "id": sid, "property": prop, "title": title, "origin": origin, "needs_to_manifest": needs,
        "confirmed_by": {
            "command": f"/venv/bin/python tools/seedcheck.py seeded/{sid} --suite --all",
            "what": "scratch git worktree of /repo HEAD under $TMPDIR; demo.py run before and after `git apply patch.diff`; pinned suite on the patched tree; all 20 quick checks with --repo <worktree>; worktree removed",
            "suite_on_patched_tree": d0["suite_tail"] + " (the same four as on the unchanged tree)" if not d0["suite_extra_failures"] else d0["suite_tail"],
            "suite_failures_beyond_the_4_that_always_fail": d0["suite_extra_failures"],
            "demo_exit_clean_tree": d0["demo_clean_rc"], "demo_exit_patched_tree": d0["demo_patched_rc"],
        },
    }
    if not own0:
        before = {k: v["rules"] for k, v in d0["checks_fired"].items() if v["rc"] == 1}
        meta["history"] = f"missed by {prop} at first (checks that fired then: {before or 'none'}); " + hist.get(name, "rule added")
    meta["checks_that_fire"] = fired
    meta["flagged_by_own_property"] = prop in fired
    json.dump(meta, open(os.path.join(dst, "meta.json"), "w"), indent=1)
    print(sid, meta["flagged_by_own_property"], "history" in meta)
