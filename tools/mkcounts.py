#!/usr/bin/env python3
"""Markdown table of the instance counts every rule found on the current tree against the hand-confirmed minimum
(from evidence/*.json, coverage.rule_instances) - DESIGN.md Appendix A, as-built part."""
import glob
import json
import os

VERIF = os.path.dirname(os.path.dirname(os.path.abspath(__file__)))
print("| property | rule / counter | found on the current tree | minimum below which the run is ANALYSIS-ERROR |")
print("|---|---|---|---|")
for f in sorted(glob.glob(os.path.join(VERIF, "evidence", "C??.json"))):
    d = json.load(open(f))
    pid = os.path.basename(f)[:-5]
    for rule, v in sorted(d.get("coverage", {}).get("rule_instances", {}).items()):
        print(f"| {pid} | {rule} | {v['found']} | {v['min']} |")
