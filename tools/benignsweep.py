#!/usr/bin/env python3
"""Behaviour-preserving refactoring sweep (false-alarm test of the checker at scale, informational).

Every variant is one *semantics-preserving by construction* AST rewrite of one site of /repo/src/joserfc,
written (via ast.unparse of the whole module - so the layout of that file changes as well) into a scratch copy
under $TMPDIR which is removed immediately.  All 20 quick checks run with --repo <scratch>.  Since behaviour is
unchanged, every non-zero exit is a defect of the checker: exit 1 = false alarm, exit 2 = a rule that
cannot interpret an equivalent spelling (fail-closed, still to be widened).

operators
  unparse        the file re-emitted by ast.unparse, nothing else (layout / comments / parentheses only)
  rename-local   one local variable of one function renamed consistently
  if-swap        `if c: A else: B`            -> `if not c: B else: A`
  ret-local      `return e`                   -> `_rv = e; return _rv`
  ne-flip        `a != b`                     -> `not a == b`          (and `a not in b` -> `not a in b`)
  cmp-mirror     `a < b` (pure operands)      -> `b > a`
  and-split      `if a and b: S` (no else)    -> `if a:` / `if b: S`
  add-else       `if c: ...return/raise` ; rest -> `if c: ... else: rest`
  eq-swap        `a == b` (pure operands)     -> `b == a`
  update-setitem `d.update({k: v})`           -> `d[k] = v`
  ifexp-if       `t = A if c else B`          -> `if c: t = A` / `else: t = B`
  demorgan       `not a and not b`            -> `not (a or b)`
  isinstance-split `isinstance(x, (A, B))`    -> `isinstance(x, A) or isinstance(x, B)`
  extract-arg    `f(p, g(x))` (p pure)        -> `_arg = g(x); f(p, _arg)`
  drop-else      `if c: ...return else: R`    -> `if c: ...return` ; R
  swap-assign    `a = p ; b = q` (pure, independent) -> `b = q ; a = p`
  dict-ctor      `{"k": v}` (identifier keys) -> `dict(k=v)`

usage: benignsweep.py [--jobs 16] [--limit N] [--ops a,b] [--files x.py,..] [--out FILE] [--seed N]
"""
import ast
import concurrent.futures as cf
import copy
import json
import os
import random
import shutil
import subprocess
import sys
import tempfile
import time

VERIF = os.path.dirname(os.path.dirname(os.path.abspath(__file__)))
REPO = os.environ.get("JV_REPO", "/repo")
PY = "/venv/bin/python"
PROPS = ["C%02d" % i for i in range(1, 21)]
SKIP_FILES = {"errors.py", "__init__.py"}


def functions(tree):
    for n in ast.walk(tree):
        if isinstance(n, (ast.FunctionDef, ast.AsyncFunctionDef)):
            yield n


def own_nodes(fn):
    """nodes of fn without descending into nested defs / lambdas / classes"""
    stack = list(ast.iter_child_nodes(fn))
    while stack:
        n = stack.pop()
        yield n
        if isinstance(n, (ast.FunctionDef, ast.AsyncFunctionDef, ast.Lambda, ast.ClassDef)):
            continue
        stack.extend(ast.iter_child_nodes(n))


def pure(e):
    if isinstance(e, (ast.Name, ast.Constant)):
        return True
    if isinstance(e, ast.Attribute):
        return pure(e.value)
    if isinstance(e, ast.Call) and isinstance(e.func, ast.Name) and e.func.id == "len" and len(e.args) == 1 and not e.keywords:
        return pure(e.args[0])
    if isinstance(e, ast.BinOp):
        return pure(e.left) and pure(e.right)
    if isinstance(e, ast.Subscript):
        return False
    return False


def variants_of(path, ops):
    src = open(path).read()
    tree = ast.parse(src)
    out = []

    def emit(op, line, what, t2):
        try:
            text = ast.unparse(ast.fix_missing_locations(t2)) + "\n"
            ast.parse(text)
        except Exception:
            return
        out.append({"op": op, "line": line, "what": what, "src": text})

    if "unparse" in ops:
        emit("unparse", 0, "re-emitted", copy.deepcopy(tree))

    # index nodes by position in a deterministic walk so that a deep copy can be addressed
    def walk_list(t):
        return list(ast.walk(t))
    base = walk_list(tree)
    idx_of = {id(n): i for i, n in enumerate(base)}

    def clone():
        t2 = copy.deepcopy(tree)
        return t2, walk_list(t2)

    for fn in functions(tree):
        params = {a.arg for a in fn.args.args + fn.args.kwonlyargs + fn.args.posonlyargs}
        if fn.args.vararg:
            params.add(fn.args.vararg.arg)
        if fn.args.kwarg:
            params.add(fn.args.kwarg.arg)
        declared = set()
        inner_bound = set()
        stores = {}
        for n in ast.walk(fn):
            if isinstance(n, (ast.Global, ast.Nonlocal)):
                declared |= set(n.names)
        for n in own_nodes(fn):
            if isinstance(n, ast.Name) and isinstance(n.ctx, ast.Store):
                stores.setdefault(n.id, n)
            if isinstance(n, ast.ExceptHandler) and n.name:
                stores.setdefault(n.name, n)
            if isinstance(n, (ast.Import, ast.ImportFrom)):
                for a in n.names:
                    declared.add((a.asname or a.name).split(".")[0])
        for n in ast.walk(fn):
            if n is fn:
                continue
            if isinstance(n, (ast.FunctionDef, ast.AsyncFunctionDef, ast.Lambda)):
                a = n.args
                for x in a.args + a.kwonlyargs + a.posonlyargs:
                    inner_bound.add(x.arg)
                if isinstance(n, (ast.FunctionDef, ast.AsyncFunctionDef)):
                    inner_bound.add(n.name)
                    for m in ast.walk(n):
                        if isinstance(m, ast.Name) and isinstance(m.ctx, ast.Store):
                            inner_bound.add(m.id)
            if isinstance(n, (ast.ListComp, ast.SetComp, ast.DictComp, ast.GeneratorExp)):
                for g in n.generators:
                    for m in ast.walk(g.target):
                        if isinstance(m, ast.Name):
                            inner_bound.add(m.id)
        if "rename-local" in ops:
            for name in sorted(stores):
                if name in params or name in declared or name in inner_bound or name.startswith("__"):
                    continue
                new = name + "_r"
                if any(isinstance(m, ast.Name) and m.id == new for m in ast.walk(fn)):
                    continue
                t2, l2 = clone()
                f2 = l2[idx_of[id(fn)]]
                for m in ast.walk(f2):
                    if isinstance(m, ast.Name) and m.id == name:
                        m.id = new
                    if isinstance(m, ast.ExceptHandler) and m.name == name:
                        m.name = new
                emit("rename-local", fn.lineno, f"{fn.name}: {name} -> {new}", t2)
        for n in own_nodes(fn):
            i = idx_of[id(n)]
            if "if-swap" in ops and isinstance(n, ast.If) and n.orelse:
                t2, l2 = clone()
                m = l2[i]
                m.test = ast.UnaryOp(op=ast.Not(), operand=m.test)
                m.body, m.orelse = m.orelse, m.body
                emit("if-swap", n.lineno, f"{fn.name}: if {ast.unparse(n.test)[:60]}", t2)
            if "ret-local" in ops and isinstance(n, ast.Return) and n.value is not None and not isinstance(n.value, (ast.Constant, ast.Name)):
                t2, l2 = clone()
                m = l2[i]
                # find the owner list
                done = False
                for p in l2:
                    for fld in ("body", "orelse", "finalbody"):
                        lst = getattr(p, fld, None)
                        if isinstance(lst, list) and m in lst:
                            k = lst.index(m)
                            lst[k:k + 1] = [ast.Assign(targets=[ast.Name(id="_rv", ctx=ast.Store())], value=m.value, lineno=m.lineno),
                                            ast.Return(value=ast.Name(id="_rv", ctx=ast.Load()))]
                            done = True
                            break
                    if done:
                        break
                    if isinstance(p, ast.Try):
                        for h in p.handlers:
                            if m in h.body:
                                k = h.body.index(m)
                                h.body[k:k + 1] = [ast.Assign(targets=[ast.Name(id="_rv", ctx=ast.Store())], value=m.value, lineno=m.lineno),
                                                   ast.Return(value=ast.Name(id="_rv", ctx=ast.Load()))]
                                done = True
                if done:
                    emit("ret-local", n.lineno, f"{fn.name}: return {ast.unparse(n.value)[:60]}", t2)
            if isinstance(n, ast.Compare) and len(n.ops) == 1:
                if "ne-flip" in ops and isinstance(n.ops[0], (ast.NotEq, ast.NotIn, ast.IsNot)):
                    t2, l2 = clone()
                    m = l2[i]
                    pos = {ast.NotEq: ast.Eq, ast.NotIn: ast.In, ast.IsNot: ast.Is}[type(n.ops[0])]()
                    inner = ast.Compare(left=m.left, ops=[pos], comparators=m.comparators)
                    # replace m in its parent
                    for p in l2:
                        for fld, val in ast.iter_fields(p):
                            if val is m:
                                setattr(p, fld, ast.UnaryOp(op=ast.Not(), operand=inner))
                            elif isinstance(val, list) and m in val:
                                val[val.index(m)] = ast.UnaryOp(op=ast.Not(), operand=inner)
                    emit("ne-flip", n.lineno, f"{fn.name}: {ast.unparse(n)[:60]}", t2)
                if "cmp-mirror" in ops and isinstance(n.ops[0], (ast.Lt, ast.LtE, ast.Gt, ast.GtE)) and pure(n.left) and pure(n.comparators[0]):
                    t2, l2 = clone()
                    m = l2[i]
                    mir = {ast.Lt: ast.Gt, ast.LtE: ast.GtE, ast.Gt: ast.Lt, ast.GtE: ast.LtE}[type(n.ops[0])]()
                    m.left, m.comparators, m.ops = m.comparators[0], [m.left], [mir]
                    emit("cmp-mirror", n.lineno, f"{fn.name}: {ast.unparse(n)[:60]}", t2)
            if "and-split" in ops and isinstance(n, ast.If) and not n.orelse and isinstance(n.test, ast.BoolOp) and isinstance(n.test.op, ast.And) and len(n.test.values) == 2:
                t2, l2 = clone()
                m = l2[i]
                a, b = m.test.values
                m.test = a
                m.body = [ast.If(test=b, body=m.body, orelse=[])]
                emit("and-split", n.lineno, f"{fn.name}: if {ast.unparse(n.test)[:60]}", t2)
        for n in own_nodes(fn):
            i = idx_of[id(n)]
            if "eq-swap" in ops and isinstance(n, ast.Compare) and len(n.ops) == 1 and isinstance(n.ops[0], (ast.Eq, ast.NotEq)) and pure(n.left) and pure(n.comparators[0]) \
                    and not isinstance(n.left, ast.Constant):
                t2, l2 = clone()
                m = l2[i]
                m.left, m.comparators = m.comparators[0], [m.left]
                emit("eq-swap", n.lineno, f"{fn.name}: {ast.unparse(n)[:60]}", t2)
            if "update-setitem" in ops and isinstance(n, ast.Expr) and isinstance(n.value, ast.Call) and isinstance(n.value.func, ast.Attribute) and n.value.func.attr == "update" \
                    and len(n.value.args) == 1 and not n.value.keywords and isinstance(n.value.args[0], ast.Dict) and len(n.value.args[0].keys) == 1 and n.value.args[0].keys[0] is not None \
                    and pure(n.value.func.value):
                t2, l2 = clone()
                m = l2[i]
                d = m.value.args[0]
                new = ast.Assign(targets=[ast.Subscript(value=m.value.func.value, slice=d.keys[0], ctx=ast.Store())], value=d.values[0], lineno=m.lineno)
                for p in l2:
                    for fld in ("body", "orelse", "finalbody"):
                        lst = getattr(p, fld, None)
                        if isinstance(lst, list) and m in lst:
                            lst[lst.index(m)] = new
                emit("update-setitem", n.lineno, f"{fn.name}: {ast.unparse(n)[:60]}", t2)
            if "ifexp-if" in ops and isinstance(n, ast.Assign) and len(n.targets) == 1 and isinstance(n.targets[0], ast.Name) and isinstance(n.value, ast.IfExp):
                t2, l2 = clone()
                m = l2[i]
                new = ast.If(test=m.value.test, body=[ast.Assign(targets=[m.targets[0]], value=m.value.body, lineno=m.lineno)],
                             orelse=[ast.Assign(targets=[ast.Name(id=m.targets[0].id, ctx=ast.Store())], value=m.value.orelse, lineno=m.lineno)])
                for p in l2:
                    for fld in ("body", "orelse", "finalbody"):
                        lst = getattr(p, fld, None)
                        if isinstance(lst, list) and m in lst:
                            lst[lst.index(m)] = new
                emit("ifexp-if", n.lineno, f"{fn.name}: {ast.unparse(n)[:60]}", t2)
            if "demorgan" in ops and isinstance(n, ast.BoolOp) and isinstance(n.op, ast.And) and len(n.values) == 2 \
                    and all(isinstance(v, ast.UnaryOp) and isinstance(v.op, ast.Not) for v in n.values):
                t2, l2 = clone()
                m = l2[i]
                new = ast.UnaryOp(op=ast.Not(), operand=ast.BoolOp(op=ast.Or(), values=[v.operand for v in m.values]))
                for p in l2:
                    for fld, val in ast.iter_fields(p):
                        if val is m:
                            setattr(p, fld, new)
                        elif isinstance(val, list) and m in val:
                            val[val.index(m)] = new
                emit("demorgan", n.lineno, f"{fn.name}: {ast.unparse(n)[:60]}", t2)
            if "isinstance-split" in ops and isinstance(n, ast.Call) and isinstance(n.func, ast.Name) and n.func.id == "isinstance" and len(n.args) == 2 \
                    and isinstance(n.args[1], ast.Tuple) and len(n.args[1].elts) == 2 and pure(n.args[0]):
                t2, l2 = clone()
                m = l2[i]
                new = ast.BoolOp(op=ast.Or(), values=[ast.Call(func=ast.Name(id="isinstance", ctx=ast.Load()), args=[m.args[0], e], keywords=[]) for e in m.args[1].elts])
                for p in l2:
                    for fld, val in ast.iter_fields(p):
                        if val is m:
                            setattr(p, fld, new)
                        elif isinstance(val, list) and m in val:
                            val[val.index(m)] = new
                emit("isinstance-split", n.lineno, f"{fn.name}: {ast.unparse(n)[:60]}", t2)
            if "extract-arg" in ops and isinstance(n, (ast.Assign, ast.Return, ast.Expr)) and isinstance(getattr(n, "value", None), ast.Call):
                c = n.value
                if pure(c.func) or (isinstance(c.func, ast.Attribute) and pure(c.func.value)):
                    for k, a in enumerate(c.args):
                        if isinstance(a, ast.Call) and all(pure(x) for x in c.args[:k]) and not any(isinstance(y, (ast.Lambda, ast.NamedExpr, ast.Await, ast.Yield)) for y in ast.walk(a)):
                            t2, l2 = clone()
                            m = l2[i]
                            tmpn = "_arg"
                            newa = ast.Assign(targets=[ast.Name(id=tmpn, ctx=ast.Store())], value=m.value.args[k], lineno=m.lineno)
                            m.value.args[k] = ast.Name(id=tmpn, ctx=ast.Load())
                            done = False
                            for p in l2:
                                for fld in ("body", "orelse", "finalbody"):
                                    lst = getattr(p, fld, None)
                                    if isinstance(lst, list) and m in lst:
                                        lst.insert(lst.index(m), newa)
                                        done = True
                                        break
                                if done:
                                    break
                                if isinstance(p, ast.Try):
                                    for h in p.handlers:
                                        if m in h.body:
                                            h.body.insert(h.body.index(m), newa)
                                            done = True
                            if done:
                                emit("extract-arg", n.lineno, f"{fn.name}: {ast.unparse(a)[:60]}", t2)
                            break
        if "drop-else" in ops or "swap-assign" in ops:
            for owner in [fn] + [x for x in own_nodes(fn) if isinstance(x, (ast.If, ast.For, ast.While, ast.With, ast.Try))]:
                for fld in ("body", "orelse"):
                    lst = getattr(owner, fld, None)
                    if not isinstance(lst, list):
                        continue
                    for k, st in enumerate(lst):
                        if "drop-else" in ops and isinstance(st, ast.If) and st.orelse and isinstance(st.body[-1], (ast.Return, ast.Raise)) \
                                and not (len(st.orelse) == 1 and isinstance(st.orelse[0], ast.If)):
                            t2, l2 = clone()
                            o2 = l2[idx_of[id(owner)]]
                            lst2 = getattr(o2, fld)
                            s2 = lst2[k]
                            tail = s2.orelse
                            s2.orelse = []
                            lst2[k + 1:k + 1] = tail
                            emit("drop-else", st.lineno, f"{fn.name}: if {ast.unparse(st.test)[:60]}", t2)
                        if "swap-assign" in ops and k + 1 < len(lst) and isinstance(st, ast.Assign) and isinstance(lst[k + 1], ast.Assign) \
                                and len(st.targets) == 1 and len(lst[k + 1].targets) == 1 and isinstance(st.targets[0], ast.Name) and isinstance(lst[k + 1].targets[0], ast.Name) \
                                and pure(st.value) and pure(lst[k + 1].value):
                            a, b = st, lst[k + 1]
                            na, nb = a.targets[0].id, b.targets[0].id
                            used_b = {x.id for x in ast.walk(b.value) if isinstance(x, ast.Name)}
                            used_a = {x.id for x in ast.walk(a.value) if isinstance(x, ast.Name)}
                            if na != nb and na not in used_b and nb not in used_a:
                                t2, l2 = clone()
                                o2 = l2[idx_of[id(owner)]]
                                lst2 = getattr(o2, fld)
                                lst2[k], lst2[k + 1] = lst2[k + 1], lst2[k]
                                emit("swap-assign", st.lineno, f"{fn.name}: {na} / {nb}", t2)
        if "dict-ctor" in ops:
            for n in own_nodes(fn):
                if isinstance(n, ast.Dict) and n.keys and all(isinstance(k, ast.Constant) and isinstance(k.value, str) and k.value.isidentifier() and k.value not in ("self", "cls")
                                                                for k in n.keys) and len(n.keys) <= 4:
                    import keyword as _kw
                    if any(_kw.iskeyword(k.value) for k in n.keys):
                        continue
                    t2, l2 = clone()
                    m = l2[idx_of[id(n)]]
                    new = ast.Call(func=ast.Name(id="dict", ctx=ast.Load()), args=[], keywords=[ast.keyword(arg=k.value, value=v) for k, v in zip(m.keys, m.values)])
                    for p in l2:
                        for fld, val in ast.iter_fields(p):
                            if val is m:
                                setattr(p, fld, new)
                            elif isinstance(val, list) and m in val:
                                val[val.index(m)] = new
                    emit("dict-ctor", n.lineno, f"{fn.name}: {ast.unparse(n)[:60]}", t2)
        if "add-else" in ops:
            for owner in [fn] + [x for x in own_nodes(fn) if isinstance(x, (ast.If, ast.For, ast.While, ast.With, ast.Try))]:
                for fld in ("body", "orelse"):
                    lst = getattr(owner, fld, None)
                    if not isinstance(lst, list):
                        continue
                    for k, st in enumerate(lst):
                        if isinstance(st, ast.If) and not st.orelse and k + 1 < len(lst) and isinstance(st.body[-1], (ast.Return, ast.Raise)) \
                                and not isinstance(owner, (ast.For, ast.While)):
                            t2, l2 = clone()
                            o2 = l2[idx_of[id(owner)]]
                            lst2 = getattr(o2, fld)
                            s2 = lst2[k]
                            s2.orelse = lst2[k + 1:]
                            del lst2[k + 1:]
                            emit("add-else", st.lineno, f"{fn.name}: if {ast.unparse(st.test)[:60]}", t2)
    return out


def run(cmd, cwd=None, env=None, timeout=600):
    try:
        p = subprocess.run(cmd, cwd=cwd, env=env, capture_output=True, text=True, timeout=timeout)
        return p.returncode, p.stdout + p.stderr
    except subprocess.TimeoutExpired:
        return 124, "timeout"


def split_all_output(o: str) -> dict:
    """per-property verdicts out of the combined output of `jv all`"""
    fired = {}
    cur = None
    first = {}
    for ln in o.splitlines():
        if len(ln) > 4 and ln[0] == "C" and ln[1:3].isdigit() and ln[3:5] == " [":
            cur = ln[:3]
        elif (ln.startswith("  R") or ln.startswith("  E")) and cur:
            first.setdefault(cur, ln.strip()[:300])
        elif ln.startswith("VIOLATION property="):
            p = ln.split("property=")[1].split()[0]
            fired[p] = {"rc": 1, "first": first.get(p, "")}
        elif ln.startswith("ANALYSIS-ERROR property="):
            p = ln.split("property=")[1].split()[0]
            fired.setdefault(p, {"rc": 2, "first": ln[:300]})
    return fired


def evaluate(job):
    rel, v, with_suite = job
    tmp = tempfile.mkdtemp(prefix="jv-ben-")
    rec = {"file": rel, "op": v["op"], "line": v["line"], "what": v["what"]}
    try:
        shutil.copytree(os.path.join(REPO, "src"), os.path.join(tmp, "src"), ignore=shutil.ignore_patterns("__pycache__", "*.egg-info"))
        with open(os.path.join(tmp, "src", "joserfc", rel), "w") as fh:
            fh.write(v["src"])
        if with_suite:
            shutil.copytree(os.path.join(REPO, "tests"), os.path.join(tmp, "tests"), ignore=shutil.ignore_patterns("__pycache__"))
            env = dict(os.environ, PYTHONPATH=os.path.join(tmp, "src"), PYTHONDONTWRITEBYTECODE="1")
            rc, o = run([PY, "-m", "pytest", "-q", "-p", "no:cacheprovider", "-x", "--deselect", "tests/jwe/test_compact.py::TestJWECompact::test_ECDH_ES_with_EC_key",
                         "--deselect", "tests/jwk/test_ec_key.py::TestECKey::test_import_p512_key", "--deselect", "tests/jws/test_errors.py::TestJWSErrors::test_ec_incorrect_curve",
                         "--deselect", "tests/jws/test_examples.py::TestJWSExamples::test_ES512", "--timeout=120"], cwd=tmp, env=env, timeout=900)
            rec["suite_rc"] = rc
        e2 = dict(os.environ, JV_CACHE=os.path.join(tmp, ".jvcache"))
        rc, o = run([PY, "-m", "jv", "all", "--repo", tmp, "--no-write"], cwd=VERIF, env=e2, timeout=900)
        rec["fired"] = split_all_output(o)
        if rc not in (0, 1, 2) or (rc != 0 and not rec["fired"]):
            rec["error"] = f"jv all exit {rc}: {o[-300:]}"
        return rec
    except Exception as e:
        rec["error"] = f"{type(e).__name__}: {e}"
        return rec
    finally:
        shutil.rmtree(tmp, ignore_errors=True)


def main():
    args = sys.argv[1:]
    jobs, limit, files, outp, seed, with_suite = 16, None, None, "benignsweep.jsonl", 1, False
    ops = ["unparse", "rename-local", "if-swap", "ret-local", "ne-flip", "cmp-mirror", "and-split", "add-else",
           "eq-swap", "update-setitem", "ifexp-if", "demorgan", "isinstance-split", "extract-arg", "drop-else", "swap-assign", "dict-ctor"]
    for i, a in enumerate(args):
        if a == "--jobs":
            jobs = int(args[i + 1])
        if a == "--limit":
            limit = int(args[i + 1])
        if a == "--files":
            files = args[i + 1].split(",")
        if a == "--ops":
            ops = args[i + 1].split(",")
        if a == "--out":
            outp = args[i + 1]
        if a == "--seed":
            seed = int(args[i + 1])
        if a == "--suite":
            with_suite = True
    root = os.path.join(REPO, "src", "joserfc")
    work = []
    for d, _ds, fs in os.walk(root):
        for f in sorted(fs):
            if not f.endswith(".py") or f in SKIP_FILES:
                continue
            rel = os.path.relpath(os.path.join(d, f), root)
            if files and rel not in files:
                continue
            for v in variants_of(os.path.join(d, f), ops):
                work.append((rel, v, with_suite))
    random.Random(seed).shuffle(work)
    if limit:
        work = work[:limit]
    print(f"{len(work)} behaviour-preserving variants, {jobs} workers", flush=True)
    t0 = time.time()
    n = alarms = errs = 0
    with open(outp, "w") as fh, cf.ThreadPoolExecutor(max_workers=jobs) as ex:
        for rec in ex.map(evaluate, work):
            n += 1
            f = rec.get("fired", {})
            if any(v["rc"] == 1 for v in f.values()):
                alarms += 1
            elif f:
                errs += 1
            fh.write(json.dumps(rec) + "\n")
            fh.flush()
            if n % 25 == 0:
                print(f"{n}/{len(work)} done, false alarms {alarms}, analysis errors {errs}, {time.time() - t0:.0f}s", flush=True)
    print(f"done: {n} variants, {alarms} with a false alarm (exit 1), {errs} with only analysis errors (exit 2), wall {time.time() - t0:.0f}s")


if __name__ == "__main__":
    main()
