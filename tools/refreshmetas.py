#!/usr/bin/env python3
"""Refresh `checks_that_fire` / `flagged_by_own_property` of /verif/seeded/<id>/meta.json from a directory of seedcheck.py outputs (<id>.json),
i.e. from the last full seed regression.  usage: refreshmetas.py <resultdir>"""
import glob
import json
import os
import sys

VERIF = os.path.dirname(os.path.dirname(os.path.abspath(__file__)))
d = sys.argv[1]
n = 0
for f in sorted(glob.glob(os.path.join(d, "*.json"))):
    sid = os.path.basename(f)[:-5]
    mp = os.path.join(VERIF, "seeded", sid, "meta.json")
    if not os.path.exists(mp):
        continue
    try:
        r = json.load(open(f))
    except Exception:
        continue
    meta = json.load(open(mp))
    fired = {k: {"exit": v["rc"], "rules": v["rules"], "first_line": v.get("first", "")} for k, v in r.get("checks_fired", {}).items() if v.get("rc") == 1}
    meta["checks_that_fire"] = fired
    meta["flagged_by_own_property"] = meta["property"] in fired
    json.dump(meta, open(mp, "w"), indent=1)
    n += 1
print(n, "metas refreshed")
