#!/usr/bin/env python3
"""Summarise a directory of seedcheck.py outputs (<id>.json): which seeds their own property's check missed."""
import glob
import json
import os
import sys

d = sys.argv[1]
miss, n, other = [], 0, 0
for f in sorted(glob.glob(os.path.join(d, "*.json"))):
    sid = os.path.basename(f)[:-5]
    prop = sid.split("-")[0]
    try:
        r = json.load(open(f))
    except Exception:
        miss.append((sid, "unreadable"))
        continue
    n += 1
    fired = r.get("checks_fired", {})
    errs = {k: v for k, v in r.get("checks", {}).items() if isinstance(v, dict) and v.get("rc") not in (0, 1)} if "checks" in r else {}
    if prop not in fired or fired[prop].get("rc") != 1:
        miss.append((sid, sorted(fired)))
    if any(v.get("rc") not in (0, 1) for v in fired.values()):
        other += 1
print(f"seeds={n} own-property-missed={len(miss)} analysis-errors={other}")
for m in miss:
    print("  MISS", m)
