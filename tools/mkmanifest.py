#!/usr/bin/env python3
"""Regenerates /verif/MANIFEST.json from the table below (kept next to the rules so that the manifest is always valid)."""
import json
import os

HERE = os.path.dirname(os.path.dirname(os.path.abspath(__file__)))
PY = "/venv/bin/python"

# property -> (technique, level text, level note, design ref)
CLAIMED = {
    "C01": ("static analysis: CFG must-pass-through of the verification verdict, inter-procedural value-flow slices "
            "(received octets -> primitive), sibling-idiom table of the six verify() implementations",
            "Decides the structural core: every success return of the four JWS consume entries is dominated by a checked "
            "verification verdict; aggregators cannot succeed vacuously; the signing input and signature handed to the primitive "
            "are the received octets (no re-encoding) and the returned payload/header come from the same segments; b64 is read "
            "from the protected header only; each verify() follows an accepted accept-idiom. Not decided: unforgeability of the "
            "primitives (trusted) - the 2^n tampering quantifier is discharged only through 'the exact received octets reach the "
            "primitive and its verdict gates the return'.",
            "pyca verify primitives; mypy receiver types; CPython semantics", "5/C01"),
    "C02": ("static analysis: value-flow slices of every argument of the content decryption (AAD, ciphertext, tag, iv, CEK), "
            "barrier slice of the stored plaintext, CFG dominance of tag/IV/CEK guards, sibling table of the three decrypt() implementations",
            "Decides: the plaintext stored on the returned object comes only from enc.decrypt(); the AAD is the received encoded "
            "protected header (never a re-serialisation) plus the decoded aad member; ciphertext/tag/iv are the received segments; each "
            "decrypt() follows an accepted authenticate-then-decrypt idiom with the unsliced tag; check_iv, the direct-mode empty-key "
            "guard, the single-CEK rules, the CEK length guard and the verify_all_recipients re-raise dominate the decryption; ECDH "
            "exchanges are curve-guarded and epk only enters through the validating import; key material comes from the recipient "
            "being processed. Not decided: AEAD soundness and point validation inside the crypto libraries (trusted).",
            "pyca/cryptography, pycryptodome; mypy receiver types", "5/C02"),
    "C05": ("static analysis: constant folding of every registered algorithm model and registry table vs frozen tables, "
            "path-condition truth table of the allow-list gate, who-may-access rule on the class tables, value-flow of model receivers",
            "Decides: folded (name, recommended, location) of every model reaching register() at import equals the documented "
            "recommended set; the gate functions accept exactly supported and (allowed-list ? in-list : recommended) over all 16 atom "
            "assignments and raise UnsupportedAlgorithmError otherwise; the class tables are read only inside those gates and written "
            "only by register(); `algorithms` only flows into fresh registry constructions; every model receiver of a crypto call "
            "comes from a gate call; `none` never verifies; registration code is unreachable from operations.",
            "frozen tables in jv/spec/tables.py; explicit empty allow-list not armed (ambiguous statement)", "5/C05"),
    "C06": ("static analysis: CFG must-pass-through of check_use / curve / size gates on every key-entering site, literal table of "
            "get_op_key operations per algorithm method, path-condition truth table of check_key_op, folded operation registry and key sizes",
            "Decides: every key selected by guess_key (11 landing sites) or pre-attached to a recipient passes check_use('sig'|'enc') "
            "before any use; every algorithm method obtains its native key only via get_op_key(<operation required by the RFC table>), "
            "get_op_key is dominated by check_key_op, check_key_op raises iff key_ops excludes the operation or private material is "
            "missing (all 16 atom assignments), the folded operation registry equals RFC 7517; ECDSA sign/verify and EdDSA are curve/type "
            "guarded; AES-KW/GCM-KW/dir exact-size and RSA>=2048 gates dominate the primitives; the PEM/SSH unsafe-secret warning is on "
            "every path. The key-type gate is audit-only (every mismatch already fails inside the primitive).",
            "primitives fail for keys of the wrong type; frozen tables jv/spec/tables.py", "5/C06"),
    "C17": ("static analysis: disallowed-API / bounded-call rule over every inflate call (typed receivers), constant folding of the bound, "
            "CFG must-pass-through of a completion gate between the bounded call and the return, barrier slice of the decompress argument",
            "Decides: every inflate call carries max_length folding to <= 256000 and no one-shot decompress exists; on every path from the "
            "bounded call to the return of its (unsliced) result a raise of ExceededSizeError is guarded by eof or by a second pull on the same "
            "object (unconsumed_tail alone is insufficient - witness 256001 x 'a'); compression emits raw DEFLATE and the zlib-framed inflater "
            "is chosen only for inputs starting with the zlib header; only the output of enc.decrypt is decompressed; ExceededSizeError is raised only after the bounded inflate call (never from the compressed length). Not decided: value-level "
            "round trip up to the limit (zlib reaches eof exactly at the limit: probed, trusted).",
            "zlib honours max_length and eof", "5/C17"),
    "C15": ("static analysis: CFG must-pass-through of check_header around every algorithm lookup (per iteration in recipient loops), "
            "sibling agreement of the three check_header implementations, folded header tables vs RFC tables, structural decision of the validators",
            "Decides: at each of the 9 orchestration sites no signature/recipient can be processed to a normal completion without "
            "registry.check_header on the same merged headers that name the algorithm (check_more=True on JWE consumption); each check_header "
            "runs the crit check, required+type validation over the instance registry and - iff strict - the unknown-parameter check (JWE: plus "
            "the algorithm's own table with the caller's check_more); the RFC 7797 override gates b64 on crit and delegates; the folded "
            "parameter tables (JWS 11, JWE 13, 7797 b64, GCMKW/ECDH/PBES2/1PU specific) equal the RFC tables incl. required flags and validator "
            "semantics; validate_registry_header / check_crit_header / check_supported_header raise as specified; caller registries are merged.",
            "RFC parameter tables as transcribed in jv/spec/tables.py", "5/C15"),
    "C20": ("static analysis: effect / ownership analysis of every store in operation-reachable code (root of the mutated object: fresh, self, "
            "parameter, global; alias-following), lost-update pairing, folded attribute sets of all model instances, context-escape rule",
            "Decides effect-freedom, which implies independence under every schedule and history for the library's own state: no "
            "operation-reachable statement stores into a module/class-level object, an algorithm model, a registry, a key, a key set or a "
            "binding (two whitelisted lazy views on keys, each one symbol with a reason); model methods never store on self and model "
            "attributes fold to constants / immutable configuration; MAC / cipher / KDF / padder / zlib contexts are bound to locals of the "
            "activation; no shared field has both a rebinding and an in-place mutation site (lost update); no global/nonlocal, no mutable "
            "defaults. Not decided: thread-safety inside pyca/OpenSSL objects of a shared key; schedules as such are not explored.",
            "pyca/OpenSSL thread-safety; per-call header/claims/message objects (statement)", "5/C20"),
    "C18": ("static analysis: must-originate value-flow slices of IV / CEK / key-wrap IV / salt / key material to CSPRNG call sites, "
            "partial evaluation of every generate_iv / generate_cek with the folded model instances, activation / escape rule on CSPRNG calls",
            "Decides source, size and no-reuse: the iv argument of enc.encrypt slices to {secrets.token_bytes} only; non-direct CEKs slice "
            "to token_bytes (direct / agreed keys are barriers) and the constant initialiser cannot reach a key-management call; the GCM-KW "
            "IV and every generated PBES2 salt are CSPRNG calls; all four generate_key paths build the key from a pyca generator / "
            "token_bytes; each generate_iv/generate_cek folds to token_bytes(required size) for all 8 enc models, GCM-KW 96 bit, salt >= 8, "
            "DEFAULT_P2C >= 1000, RSA e=65537, EC/OKP requested curve; no CSPRNG call is made at import / in a default / in a cached "
            "function or stored on shared state; the ephemeral key is generated per recipient on its curve; `random` only selects keys; the header objects that receive the library-written p2s / p2c / epk / iv / tag are per-message objects (no default-argument or module-level object). "
            "Not decided: statistical distinctness (no constant, counter, cache, parameter or field can reach the sinks instead).",
            "secrets / os.urandom / pyca generators are strong sources", "5/C18"),
    "C12": ("static analysis: folded private-flag tables vs RFC, CFG structure of the as_dict filter, who-may-call rule on key-material "
            "accessors in token modules, local derivation closure of every header sink, branch table of the PEM/DER exporters",
            "Decides: the private flags of all four value registries equal {d,p,q,dp,dq,qi,oth,k}; BaseKey.as_dict returns a copy, raises for a "
            "private export of a public key before any return, and on the private=False path deletes every registry-private member (no key class "
            "overrides it); the three export_public_key bodies touch no private accessor or member; the epk header is as_dict(private=False); "
            "KeySet.as_dict passes the flag to every key; token modules never read raw_value/private_key/dict_value/as_pem... and the 7 add_header "
            "values derive only from cipher outputs, CSPRNG values, kids or public exports; dump_pem_key / as_bytes map private False->public. "
            "Not decided: absence of private octets in raw/hex/base64 form inside library outputs (value level).",
            "pyca public_bytes / public_numbers expose no private parameter", "5/C12"),
    "C16": ("static analysis: exception-flow analysis (explicit raise / assert / external throws table, handler-sensitive, fixed point over the "
            "call graph) plus typestate rules for untrusted JSON and machine-checked assert justifications",
            "An exact rule catalogue, not a proof of the universal statement. Decides over the ~190 functions reachable from the consume "
            "entries: (E1) every exception class the frozen throws table assigns to an external call (303 sites) is converted by a handler or "
            "is a JoseError / ValueError subclass - incl. range-guard recognition for PBKDF2 iterations; (E2) decoded headers are checked to be "
            "dicts before use, crit is type-checked (list of str) before iteration, algorithm names are str-checked in the gates and present before lookup, "
            "table lookups keyed by JWK / header members are membership-guarded; (E3) each of the 27 consume-reachable asserts has a "
            "machine-checked justification (required header parameter, closed class family over the folded models, field set on every "
            "constructing path, literal operations) or a named whitelist entry; (E4) check_key_type precedes verification / CEK recovery; (E5) "
            "explicit raises are allowed classes, stubs are shown unreachable. Not decided: states no rule models.",
            "throws table jv/spec/throws.py (probed); well-formed keys and registries; mypy receiver types", "5/C16"),
    "C09": ("static analysis: def-use provenance of the parsed payload to the verified transport object, CFG must-pass of the object-only "
            "gate, effect analysis of the header parameter, structural comparison of the transport selection",
            "Decides five structural clauses: json.loads in jwt.decode is fed only from .payload / .plaintext of the object returned by "
            "jws.deserialize_compact / jwe.decrypt_compact (integrity first, see C01/C02); every return of Token(header, claims) is dominated by "
            "isinstance(claims, dict) with InvalidPayloadError on the false edge; parse errors map to InvalidPayloadError; encode never stores "
            "into / forwards the caller's header (a fresh {'typ': 'JWT', **header} is sent, explicit typ wins); encode and decode select the "
            "transport with the same test; exp/iat/nbf datetimes become calendar.timegm(utctimetuple()). Not decided: JSON value fidelity of "
            "claims (unicode, floats) - value level.",
            "C01/C02 verdicts for the transports", "5/C09"),
    "C10": ("static analysis: linear normal form of the time-window comparisons, CFG dominance of type guards, path-condition truth table of "
            "check_value (128 assignments), effect analysis of the claims parameter",
            "The decision logic touches claim values only through comparisons, membership and isinstance - a finite table, decided exactly: "
            "validate_exp raises ExpiredTokenError iff value - now + leeway < 0 (<= also accepted: the statement leaves that second open), "
            "validate_nbf / validate_iat raise InvalidTokenError iff value - now - leeway > 0; the numeric guard raising InvalidClaimError "
            "dominates; MissingClaimError iff an essential key has claims.get(key) is None; check_value raises InvalidClaimError iff option "
            "and ((not allow_blank and value == '') or value != option.value or value not in option.values) over all 128 atom assignments; "
            "dispatch visits every claim; aud intersection; validate and the validators never store into the claims; now defaults to "
            "int(time.time()).",
            "Python comparison semantics on claim values", "5/C10"),
    "C11": ("static analysis: encoder-shape rule on every exported JWK member (fixed-width vs minimal codec), member-set symmetry of exporters / "
            "importers / registries, CFG dominance of validation, folded JWK parameter tables",
            "Decides the structural clauses: EC x / y / d go through to_bytes(ceil(curve.key_size / 8), 'big') (never the minimal codec), RSA "
            "members through the minimal unsigned big-endian codec, OKP through raw public/private bytes; exported member sets equal the "
            "registries' (public = non-private members), importers read only registered members and all material-bearing ones; "
            "validate_dict_key (parameter registry, value registry, use/key_ops consistency) dominates import_from_dict and the dict view bound "
            "in __init__; CRT parameters all-or-none; imports end in pyca's validating constructors, unsafe_skip_rsa_key_validation is a "
            "disallowed keyword; JWK_PARAMETER_REGISTRY, use/key_ops choices and the kty dispatch table equal RFC 7517; a dict-imported key keeps "
            "the given members. Not decided: equality of key material across PEM / DER / JWK for every key value (pyca serialisation trusted).",
            "pyca serialisation and number validation", "5/C11"),
    "C13": ("static analysis: folded required-member tables vs RFC 7638, structural decision of the canonical-JSON construction, encoder-shape "
            "rule for the EC members feeding the digest, guard / who-calls rule for kid assignment",
            "Decides: thumbprint members (required members of each value_registry + kty) equal RFC 7638 3.2 / RFC 8037 2 and BaseKey.thumbprint "
            "passes exactly those; rfc7638.thumbprint copies only the listed fields in lexicographic order, serialises with separators (',', ':'), "
            "digests the UTF-8 bytes with the selected one of sha256/384/512 and emits unpadded base64url; the EC members feeding the digest have "
            "the RFC length (so PEM-loaded and JWK-loaded forms agree); ensure_kid stores self.thumbprint() only under `'kid' not in dict_value`, "
            "no other store to kid exists in key classes, and KeySet.__init__/as_dict, the four generate_key(auto_kid) and guess_key call it.",
            "hashlib; json.dumps of ASCII member values", "5/C13"),
    "C14": ("static analysis: path-condition enumeration of get_by_kid, CFG reachability under branch filters in guess_key, literal table of "
            "use_random at all 12 call sites, folded algorithm -> key-type table, effect analysis of the key-set methods",
            "Decides: every return of get_by_kid is guarded by (kid is None and a single key) or key.kid == kid and the fall-through raises "
            "InvalidKeyIdError; guess_key reads kid from the merged headers, picks randomly only when use_random and no kid, then ensures and "
            "records the kid, otherwise get_by_kid(kid); consuming call sites never pass use_random, producing ones pass True; every registered "
            "algorithm (15 JWS, 17 JWE, 4 draft) has a key-type entry equal to the model's and the RFC's; pick_random_key filters by those types; "
            "selection never reorders / modifies the set; __init__, import_key_set and as_dict keep every key and give it a kid; the three "
            "set_kid siblings write kid; the sender key is resolved by skid.",
            "kid-before-header ordering is decided under C03", "5/C14"),
    "C03": ("static analysis: byte-term normalisation of signing input vs emitted segments, CFG dominance of key selection over header "
            "encoding, arithmetic-shape rule for R||S widths, regex AST of the RFC 7797 pattern",
            "Claimed for structural clauses only (necessary conditions of the round trip): at all 4 sign sites the emitted header / payload "
            "segments are exactly the terms that form the signing input and the signature is BASE64URL(alg.sign(that input)); key selection "
            "(which may record a kid) dominates the encoding of the protected header; encode_int / ECDSA sign / verify use ceil(bits / 8) octets "
            "from the same curve_key_size with left padding (P-521 = 66, which the environment's suite cannot run); detaching replaces only "
            "segment 1 / deletes only 'payload' from a deep copy; the attach/detach pattern, parsed with re._parser, is an anchored match of "
            "exactly the 65 URL-safe characters; the dict that is encoded is the object key selection writes the kid into; optional JSON members are "
            "written when present and one predicate on `protected` governs signing input and output. Not decided (the bulk): equality of the recovered payload / header for every payload, key "
            "and header value - value-level.",
            "verification side: C01", "5/C03"),
    "C04": ("static analysis: CFG dominance of the mode-restriction guards, mirror comparison of the zip conditions, literal member-name sets "
            "of writers vs readers vs RFC 7516, statement-order check of the header merge",
            "Claimed for four structural clauses: direct-mode CEK computation is dominated by the ConflictAlgorithmError guard on several "
            "recipients, and the ECDH-1PU encrypt side calls _check_enc (raise iff key wrapping and not CBC-HMAC) first; compression is applied "
            "to what enc.encrypt receives and decompression to what enc.decrypt returns under the identical condition `'zip' in obj.protected`; "
            "the member names written by represent_* equal those read by extract_* and RFC 7516 7.2, compact is five segments in the RFC order on "
            "both sides; Recipient.headers merges protected -> unprotected -> per-recipient into a fresh dict and add_header writes protected for "
            "compact, per-recipient otherwise; the JSON aad member takes part under one predicate on all three sides; optional JSON members are written "
            "when present; the DEF completion gate and raw-DEFLATE framing rules of C17 hold (a plaintext of exactly the limit round-trips). "
            "Not decided: plaintext equality over all alg x enc x zip x curve x length classes.",
            "RFC 7516 section 7", "5/C04"),
    "C07": ("static analysis: folded JWS parameter table vs RFC 7518/8037/8812, primitive call-shape table, byte-term of the signing input at "
            "every sign site, plus the C01 received-octets and C03 width rules",
            "Decides tables and layout: each of the 15 JWS models folds to the RFC's (class, key type, hash, curve, PKCS1v15 / PSS(MGF1 same "
            "hash, salt = digest size)); HMAC is hmac.new(raw key octets, msg, SHA-n), RSA/ECDSA/EdDSA primitives get (…, padding, hash) / "
            "ECDSA(hash) / pure message; the signing input term is B64J(protected) '.' B64U(payload) (payload unencoded only in the RFC 7797 "
            "modules); received octets are verified, so foreign header spellings verify (R01.3); R||S is fixed width with DER conversion (R03.3); "
            "header JSON is compact ASCII and base64url unpadded; public JWK members per key type equal RFC 7518 6 / RFC 8037 2. Not decided: "
            "agreement with an independent implementation for every input (needs an oracle implementation - a different technique).",
            "frozen RFC tables; pyca primitives implement the named schemes", "5/C07"),
    "C08": ("static analysis: folded JWE parameter tables vs RFC 7518 and the drafts, byte-term normalisation of the AAD, CBC-HMAC MAC input, "
            "Concat-KDF other-info and PBES2 salt against RFC terms, primitive call-shape table, plus C02 / C04 / C17 rules",
            "Decides tables and layout: 21 key-management and 8 content-encryption models fold to the RFC / draft parameters (paddings, key "
            "sizes, wrapper pairing, cek / iv sizes, hashes, tag_aware); AAD = B64J(protected) ['.' B64U(aad)] computed after key management "
            "completed the header, and on consumption the received octets (R02.2); CBC-HMAC: MAC key first half, ENC key second half, MAC over "
            "aad || iv || ciphertext || 64-bit AL in bits, tag = first key_len octets; Concat KDF other-info = len32.AlgorithmID || len32.apu "
            "|| len32.apv || u32(keydatalen) [|| len32.tag] with alg / key size when wrapping else enc / CEK size, SHA-256, 1PU Z = Ze || Zs; "
            "PBES2 salt = alg || 0x00 || p2s, PBKDF2 with the model hash then AES-KW; raw DEFLATE; member names. Not decided: interoperation "
            "with an independent implementation for every input.",
            "frozen RFC / draft tables; pyca and pycryptodome implement the named schemes", "5/C08"),
    "C19": ("static analysis: who-may-call layering rule for base64 / binascii, configuration check of the strict decoder and the encoders",
            "Claimed for configuration and layering only (each a necessary condition): base64 is called only in util.py and binascii only in "
            "util.py / rfc7518/util.py, so strictness is global; the decoder is base64.b64decode(s, b'-_', validate=True) with '+' and '/' "
            "refused first, padding restored from the length and ValueError refusals; the encoder is the URL-safe alphabet with padding "
            "stripped; int_to_base64 refuses negatives and uses the minimal unsigned big-endian form, base64_to_int is big-endian over the "
            "strict decoding; json_b64encode uses compact separators, json_b64decode = json.loads o urlsafe_b64decode. Not decided: "
            "bijectivity over all octet strings - a property of CPython's binascii C code, outside the analysed source.",
            "CPython base64 / binascii behaviour with validate=True", "5/C19"),
}

# clauses added while building (DESIGN.md section 11.2), appended to the level text
ADDENDA3 = {'C01': 'Seventh batch: the gate hands out the table entry of exactly the requested name (no alias, no re-bound name).',
    'C02': "Seventh batch: attribute routing - no setting of a registry copy is taken from another setting's attribute (verify_all_recipients).", 'C03': 'Seventh batch: bit sizes of curves / moduli become octets by (bits + 7) // 8; no member is removed from a header object; verify() refuses only on exact lengths; header codec.',
    'C04': 'Seventh batch: no member is removed from a header object (R04.14); octet-length lint (R04.15, P-521 coordinates are 66 octets).',
    'C05': "Seventh batch: every raise reachable from a gate is UnsupportedAlgorithmError; the algorithm object is never carried in a field of a token / message object; no gate re-binds the name; the caller's registry is re-bound only under `registry is None` / `if algorithms`.", 'C07': 'Seventh batch: the header text is json.dumps of the object without hooks and nothing else (no hand-written fast path).',
    'C08': 'Seventh batch: bounded-inflate rules as the raw-DEFLATE framing clause.',
    'C09': "Seventh batch: operation names per primitive (verify asks for 'verify'); no member removed from a header.", 'C10': 'Seventh batch: exception flow of validate() and every validate_<claim>: only JoseError subclasses escape.',
    'C11': 'Seventh batch: a JWK member is validated whenever present (membership conditions only); import-side DER dispatch (private parser with password first); as_pem / as_der ask for their encoding; rsa_recover_prime_factors / CRT helper argument order.',
    'C12': 'Seventh batch: the header encoder has no default= / cls= hook and is_jwk accepts dicts only (a Key object cannot be serialised into a header).',
    'C15': 'Seventh batch: attribute routing (strict_check_header / header_registry of a derived registry); further optional well-typed header parameters are admitted, a registered b64 in an RFC 7515 / 7516 table is not.',
    'C16': 'Seventh batch: mypy attr-defined diagnostics in consume-reachable code are AttributeError witnesses; hmac.compare_digest raises TypeError unless both arguments are bytes-like by type.',
    'C18': 'Seventh batch: generate_cek / generate_iv take no size from their caller.',
    'C19': 'Seventh batch: json.loads of the codec has no hooks and JSON is parsed in one place; to_bytes encodes with (charset, errors).',
    'C20': 'Seventh batch: shared classes are closed over objects kept in fields of shared objects or at module level.'}
ADDENDA4 = {
    'C05': 'Eighth round: the algorithm gates are decided by partial evaluation on probe registries / names (substrings, case and whitespace variants, non-str names) under the two-sidedness condition, by the truth table otherwise.',
    'C10': 'Eighth round: JWTClaimsRegistry(...).validate(claims) is folded on a grid of about 3000 single-claim probes (time boundaries, floats, non-numbers, every combination of request options, scalar / list audiences) and compared with the statement\'s verdict; parameter defaults of the registry constructor are constants (the clock is read per registry); exception flow and the validate_<claim> dispatch set stay as rules; the shape rules R10.1 - R10.6 decide when the fold is inconclusive.',
    'C01': 'Eighth round: borrowed clauses (header tables, key selection sites, routing) look at JWS and shared code only.',
    'C02': 'Eighth round: the routing clause looks at JWE and shared code only.',
    'C03': 'Eighth round: named JSON members are filled from (and guarded by) the value of the same name (member crossing, JWS functions); borrowed generic clauses look at JWS and shared code only.',
    'C04': 'Eighth round: a member the JSON reader subscripts on every path is written on every path (R04.16); crossed-names clause of the routing rule; member crossing (R04.17); no refusal on the emptiness of the ciphertext / encrypted key in the readers (R04.18); borrowed generic clauses look at JWE and shared code only.',
    'C08': 'Eighth round: the JWE readers read an empty ciphertext / encrypted key of a foreign token (R08.15 = R04.18); the borrowed model-state clause looks at JWE models only.',
    'C11': 'Eighth round: the PEM / DER dispatch of dump_pem_key and validate_dict_key_registry are decided by partial evaluation on probe registries / JWKs (required -> raise, present -> validated whatever the value) when every branch test was decided both ways, by shape otherwise; member crossing in shared code (R11.20).',
    'C12': 'Eighth round: BaseKey.as_dict and dump_pem_key are decided by partial evaluation on probe keys / a probe grid (two-sidedness condition), by shape otherwise; CryptographyBinding.as_bytes is decided per path (call views): on every path the (native key, flag) pair handed to dump_pem_key agrees with the request - three returns or one selection followed by one call.',
    'C13': 'Eighth round: the thumbprint field selection and the thumbprint computation are decided by partial evaluation with intercepted callees on probe JWKs (two-sidedness condition, DESIGN 11.11), by shape otherwise.',
    'C14': 'Eighth round: get_by_kid and pick_random_key are decided by partial evaluation on probe key sets (two-sidedness condition), by path rule / shape otherwise; the object handed to guess_key has a headers() method according to the type checker.',
    'C15': 'Eighth round: the registry constructors, the registries handed to the shared checks by check_header, and the value validators are decided by partial evaluation on probes (two-sidedness condition), by shape otherwise.',
    'C16': 'Eighth round: the list-of-str validator that guards the crit loop is recognised by partial evaluation on the probe battery.',
    'C20': 'Eighth round: local aliases are followed flow-sensitively (`r = self.table; if c: r = r.copy(); r.update(x)` writes the copy only).',
}
ADDENDA5 = {
    'C01': 'Ninth / tenth batch: the member that decides between the general and the flattened JSON syntax is "signatures" (R01.16); the signature segment goes through the strict decoder (R01.17); the flattened readers keep a received protected / header member whenever it is present, not when its decoded value is truthy (R01.18).',
    'C02': 'Ninth / tenth batch: the member that decides between the general and the flattened JWE JSON syntax is "recipients" (R02.16); the AAD of a JSON token is protected "." BASE64URL(aad) on the producing side too (R02.17).',
    'C03': 'Ninth / tenth batch: borrowed clauses - thumbprint field selection, each JSON member signed over its own protected header, consistent use / key_ops accepted at import.',
    'C04': 'Ninth / tenth batch: every recipient is tried inside the tolerant loop (R04.22); the algorithm header tables are compared name by name (R04.21); use_random reaches guess_key at the JWE call sites (R04.23); header writers are read whether or not the shared writer exists.',
    'C05': 'Ninth / tenth batch: an explicit algorithms list outranks a passed registry in the JWE operations (R05.16); the verifying loop is not left at the first success (R05.17).',
    'C06': 'Ninth batch: every producer of a key that reaches a primitive is a checked one (R06.1, interprocedural).',
    'C07': 'Ninth / tenth batch: member crossing (R07.15), effect-freedom of the JWS functions (R07.16), consistent use / key_ops (R07.17), decode_header - which demands a protected alg - is called from the compact readers only (R07.18); key resolution on the verifying side never picks a random key or writes a kid into the received header (R07.19).',
    'C08': 'Ninth batch: effect-freedom of the JWE functions (R08.17); the tolerance for a failing recipient sits inside the loop (R08.18).',
    'C09': 'Ninth / tenth batch: borrowed clauses - zip honoured from the protected position, PKCS#7 padding from the library, thumbprint field selection.',
    'C10': 'Ninth batch: a claims registry keeps no memo on its class (R10.11).',
    'C11': 'Tenth / eleventh batch: every encoder call is the padding-stripping one (R11.23); ensure_kid writes a kid only where none is present (R11.24).',
    'C13': 'Tenth batch: kid assigned before the dict view is taken (R13.12); to_bytes returns its argument only under isinstance(x, bytes) (R13.13).',
    'C14': 'Ninth / tenth batch: the unprotected header that is emitted is the one the key resolution wrote to (R14.16); routing of private / params (R14.17); header writers (R14.18); given JWK members win over parameters in the dict view of an imported key (R14.19).',
    'C15': 'Ninth / tenth batch: check_more=True survives helpers shared with the producing side (R15.1 interprocedural); the header is judged before a key resolution may write to it (R15.10); the registry the caller passed is never replaced (R15.11); an algorithm\'s own header table is compared name by name (R15.3).',
    'C16': 'Ninth / tenth batch: strict header checking on the consuming side as a clause (E3); any repo callee keyed by a header member of a merged view needs the presence established first (E2c).',
    'C17': 'Tenth batch: unconsumed_tail bounds the input only when it is read before a further pull (R17.2, order-sensitive).',
    'C18': 'Ninth / tenth batch: every size parameter of generate_key_set is read (R18.10, frozen table of unused parameters); effect-freedom of the JWE family (R18.11).',
    'C19': 'Ninth / tenth batch: borrowed clauses R19.11 / R19.12; to_bytes identity return only for bytes (R19.13); apu / apv reach the Concat KDF through the strict decoder in every key management mode (R19.14).',
}
ENGINE_NOTE = ' Engine: calls to functions that are not in the reference function list (new helpers, extracted or introduced) are inlined exactly before any rule runs (jv/inline.py); new private NamedTuples are dissolved (jv/sroa.py); tables, search loops and comprehensions over new module-level tables are unrolled; sentinel threading, selector sinking, walrus hoisting and type-dead None-test pruning (canon C24-C28) normalise what is left.'

ADDENDA6 = {
    'C03': 'Twelfth batch: R03.3 demands the fixed-width R || S form of every return of ECAlgModel.sign (universal, not existential).',
    'C04': 'Twelfth batch: an ephemeral key is generated for its own recipient, never taken from a cache shared between recipients (R04.24, borrowed from R18.6).',
    'C06': 'Twelfth batch: the JWK view that check_use / check_key_op read is stored only after it was completed with the caller\'s parameters and validated (R06.10, borrowed from R11.22).',
    'C08': 'Twelfth batch: the tag-aware ECDH-1PU derivation is selected by the recipient\'s own algorithm (R08.19, borrowed from R04.12).',
    'C09': 'Twelfth batch: header members the library computes (iv / tag / epk / p2s) are stored by add_header in every branch, also over a stale member of a reused header (R09.19, borrowed from R04.4).',
    'C14': 'Twelfth batch: no call site on a call-graph route from a consuming entry to KeySet.get_by_kid lies under a handler that catches InvalidKeyIdError or an ancestor without an unconditional bare re-raise (R14.20).',
}

ADDENDA2 = {'C01': 'Later additions: per-instance containers on the message classes; the signature handed to the primitive is the received octet string itself; the header tables as the crit defence; PSS / PKCS1 primitive call table and consuming-side key selection (no kid written into a received header) as clauses. Generic routing rule: between functions that share a parameter name the property speaks about, the value is handed on as given (frozen exception table) and the parameter is not re-bound except by to_bytes / to_str of itself.',
    'C02': 'Later additions: 1PU / ES shared-secret terms, key-wrap primitive shapes, whole-key dir, and zip honoured from the protected position only, as clauses. Generic routing rule: between functions that share a parameter name the property speaks about, the value is handed on as given (frozen exception table) and the parameter is not re-bound except by to_bytes / to_str of itself.',
    'C03': 'Later additions: algorithm -> key-type table, per-instance registry, set-member key picking and JSON payload extraction (empty payload included) as clauses. Generic routing rule: between functions that share a parameter name the property speaks about, the value is handed on as given (frozen exception table) and the parameter is not re-bound except by to_bytes / to_str of itself.',
    'C04': 'Later additions: the handler around per-recipient CEK recovery catches the base error class; sender_key is forwarded and resolved from `sender_key`; the algorithm whose trait (tag_aware / direct_mode) is tested is the one used in the selected branch (mixed recipients); DEF gate, CBC padding layout and 1PU Z as clauses. Generic routing rule: between functions that share a parameter name the property speaks about, the value is handed on as given (frozen exception table) and the parameter is not re-bound except by to_bytes / to_str of itself.',
    'C05': "Later additions: no algorithm gate inside a handler that completes normally; a registry is built only from the call's own `algorithms` under `registry is None` (all construct_registry sites agree); the allow-list a wrapper received reaches the registry it builds and is never re-bound from a header. Generic routing rule: between functions that share a parameter name the property speaks about, the value is handed on as given (frozen exception table) and the parameter is not re-bound except by to_bytes / to_str of itself.", 'C06': 'Later additions: `_normalize_key` returns the key or OctKey.import_key(key) only; dir uses the whole key. Generic routing rule: between functions that share a parameter name the property speaks about, the value is handed on as given (frozen exception table) and the parameter is not re-bound except by to_bytes / to_str of itself.',
    'C07': "Later additions: the 'no b64' conclusion of the RFC 7797 extractors is a membership test of the decoded header (not of its spelling); verify() refuses only in the InvalidSignature handler or on an exact (bits + 7) // 8 length; oct import returns the given octets; no memoised header decoding.", 'C08': "Later additions: exchange_derive_key returns the primitive's raw output; algorithm models keep no per-call state; header codec reads UTF-8 JSON; JOSE header union. Generic routing rule: between functions that share a parameter name the property speaks about, the value is handed on as given (frozen exception table) and the parameter is not re-bound except by to_bytes / to_str of itself.", 'C09': 'Later additions: key-set routes incl. the algorithm -> key-type table, decrypt idioms, header codec, caller registry judged alike on encode and decode, bounded-inflater gate, as clauses. Generic routing rule: between functions that share a parameter name the property speaks about, the value is handed on as given (frozen exception table) and the parameter is not re-bound except by to_bytes / to_str of itself.',
    'C11': 'Later additions: each JWK integer reaches its own slot of the pyca number constructors through base64_to_int(obj[member]); all four curve tables (OKP public / private, EC both directions) equal the RFC tables and are what import indexes; oct import keeps the octets. Generic routing rule: between functions that share a parameter name the property speaks about, the value is handed on as given (frozen exception table) and the parameter is not re-bound except by to_bytes / to_str of itself.',
    'C12': 'Later additions: `original_value` is never read outside the constructor; the key state fields (_raw_value, original_value, _dict_value) are assigned in BaseKey.__init__ only; the JWK view is never built inside an object shared with other keys. Generic routing rule: between functions that share a parameter name the property speaks about, the value is handed on as given (frozen exception table) and the parameter is not re-bound except by to_bytes / to_str of itself.',
    'C13': "Later additions: with auto_kid no generate_key path skips ensure_kid; the only store of a kid into a key's JWK view in the whole package is ensure_kid; a JWK given with parameters keeps its own members. Generic routing rule: between functions that share a parameter name the property speaks about, the value is handed on as given (frozen exception table) and the parameter is not re-bound except by to_bytes / to_str of itself.", 'C14': 'Later additions: KeySet.__init__ gives every element of the list it stores a kid under no condition; KeySet.algorithm_keys is never rebound; the kid is looked up in the union of all header positions. Generic routing rule: between functions that share a parameter name the property speaks about, the value is handed on as given (frozen exception table) and the parameter is not re-bound except by to_bytes / to_str of itself.',
    'C15': "Later additions: admitted header names derive from the registry only, never from the header under test; the merged header view must be loss-free - rule R15.8 reports each (shadowed, shadowing) pair of positions; the four pairs of today's tree are the known finding F24 (a registered parameter duplicated across positions is type-checked in the surviving copy only). Generic routing rule: between functions that share a parameter name the property speaks about, the value is handed on as given (frozen exception table) and the parameter is not re-bound except by to_bytes / to_str of itself.", 'C16': 'Later additions: E9 - no membership test / iteration over a JSON member mypy still types Any in consume-reachable code; algorithm gates test membership in the table they index; a non-empty CEK set before pop.',
    'C17': "Later additions: every return of compress() is the compressor's output (empty input included); zip honoured under a presence condition.", 'C18': 'Later additions: every iteration count the library records by itself folds to >= 1000 (reaching definitions); crv / key_size / private reach the generators as requested (routing and re-binding discipline); a nonce is never routed through a container that outlives the call; per-key JWK views.',
    'C19': 'Later additions: JWK import hands base64_to_int(obj[member]) to the matching slot of the pyca number constructors (no look-up tables, no other decoder); ensure_ascii output; RSA minimal big-endian export. Generic routing rule: between functions that share a parameter name the property speaks about, the value is handed on as given (frozen exception table) and the parameter is not re-bound except by to_bytes / to_str of itself.',
    'C20': 'Later additions: memoised functions are exactly the three whitelisted public_key caches; shallow copies share their contents with the original; class-level containers and aliased instance attributes are shared roots.'}

ADDENDA = {
    "C01": "Also decided: the payload inside the signing input is the payload that is returned (or the segment the extractor pairs with it); the MAC a "
           "signature is compared with depends on (message, key, hash) only, never on state kept on the shared algorithm object.",
    "C02": "Also decided: every normal exit of a decrypt() is an explicit return of the verified result and no exception handler completes normally; "
           "assuming direct mode no completing path avoids the non-empty-encrypted-key rejection; the JSON aad member is authenticated for every JSON "
           "serialization class; a keep-first-and-compare CEK idiom must establish equality on every continuing path.",
    "C03": "Also decided (R03.7): for the compact serialization the round trip is a term identity - composing the byte terms of sign_compact, extract_compact and "
           "verify_compact symbolically, under three stated codec laws (split of dot-free segments, B64D(B64U(x)) = x, JSON header round trip), yields obj.payload, "
           "obj.headers() and alg.verify(I, alg.sign(I, key), key) over the produced signing input.",
    "C04": "Also decided (R04.7): for the compact serialization, composing perform_encrypt, represent_compact, extract_compact and _perform_decrypt symbolically under the same "
           "codec laws hands enc.decrypt exactly (C, T) = enc.encrypt(M, cek, iv, aad), the same iv and the same aad.",
    "C05": "Also decided: compression is looked up whenever a zip value is present (presence, not truthiness), so every unknown zip value reaches the refusing lookup.",
    "C06": "Also decided: the PEM / SSH prefix test is evaluated for every imported secret (no pre-filter in front of it).",
    "C07": "Also decided: the b64=false attach pattern admits no '.', so an attached unencoded payload never adds a segment.",
    "C08": "Also decided: exactly the PBES2 counts below 1 (and above the backend maximum) are refused; the published p2s is the salt that is used.",
    "C09": "Also decided: every key guess_key can return from a key set comes from get_by_kid(header kid) or pick_random_key with kid write-back.",
    "C10": "Also decided: the un-wrapped use of aud is guarded by isinstance(value, list / tuple / set) on every path (a str is always wrapped).",
    "C11": "Also decided: use / key_ops consistency is a subset test reached whenever both members are present; PEM / DER encoding dispatch is the documented "
           "finite map; a key built from a JWK keeps exactly the given members (+ parameters, kty); password / encoding / parameters are forwarded at every "
           "call between functions that take them.",
    "C12": "Also decided: the `private` flag is forwarded at every call between functions that take it (a dropped argument would select 'whatever the key holds').",
    "C13": "Also decided: exports hand out a copy, never the key's own dict (a caller cannot overwrite the kid through an export).",
    "C14": "Also decided: the kid recorded by key selection is in the header that gets encoded (selection precedes encoding and writes into the encoded dict); "
           "every route from guess_key into a key set is get_by_kid(header kid) or pick_random_key.",
    "C15": "Also decided: every definition of the registry given to check_supported_header is rooted at the instance registry (+ the model's own table).",
    "C16": "Also decided: (E2e/E2f) list validators refuse non-str members and a JWK member hashed against a dict / set table is known to be a str; (E6) the "
           "repository's own type checker, run by the typed layer, reports no use of an Optional value as if present in consume-reachable code.",
    "C18": "Also decided: every store to .ephemeral_key is None or a fresh generate_key result.",
    "C20": "Also decided: what a shallow copy contains is treated as shared with the original (mutating X.copy().get(k) is a write to X).",
}

NOT_YET = "check not built yet (build in progress; see DESIGN.md section 5 for the planned rules)"


def main() -> None:
    props = [json.loads(l) for l in open(os.path.join(HERE, "properties.jsonl"))]
    checks = []
    na = []
    for p in props:
        pid = p["id"]
        if pid in CLAIMED and os.path.exists(os.path.join(HERE, "jv", "rules", pid.lower() + ".py")):
            tech, text, note, ref = CLAIMED[pid]
            checks.append({
                "property_id": pid,
                "quick_cmd": f"{PY} -m jv check {pid} --tier quick",
                "thorough_cmd": f"{PY} -m jv check {pid} --tier thorough",
                "evidence_file": f"/verif/evidence/{pid}.json",
                "replay_cmd_template": f"{PY} -m jv replay {{path}}",
                "engine": "jv",
                "level_claimed": {"category": "other", "text": text + (" " + ADDENDA[pid] if pid in ADDENDA else "") + (" " + ADDENDA2[pid] if pid in ADDENDA2 else "") + (" " + ADDENDA3[pid] if pid in ADDENDA3 else "") + (" " + ADDENDA4[pid] if pid in ADDENDA4 else "") + (" " + ADDENDA5[pid] if pid in ADDENDA5 else "") + (" " + ADDENDA6[pid] if pid in ADDENDA6 else "") + ENGINE_NOTE, "design_ref": f"DESIGN.md section {ref} and 11.2"},
                "level_note": note,
                "technique": tech,
            })
        else:
            na.append({"property_id": pid, "reason": NA.get(pid, NOT_YET)})
    man = {
        "version": 1,
        "setup_cmd": f"{PY} -m jv selfcheck",
        "hooks": {
            "guard": "JOSERFC_VERIF",
            "enable": "none needed: every check is static analysis of /repo's working tree; no source hooks exist",
            "baseline_off_cmd": "cd /repo && /venv/bin/python -m pytest -ra -q -p no:cacheprovider --timeout=900 --continue-on-collection-errors",
            "source_commits": [],
            "add_only": True,
        },
        "engines": [{
            "name": "jv", "path": "/verif/jv", "serves_properties": [c["property_id"] for c in checks],
            "kind_free_text": "repository-specific static analyser: ast program model, mypy-typed call graph (repo's own mypy as a "
                              "library), CFG dominance / must-pass-through, path-condition truth tables, inter-procedural value-flow "
                              "slices, constant folding of models and registries, effect and exception-flow analysis",
        }],
        "checks": checks,
        "notes": "Static analysis only: every verdict is computed from the source text of /repo's current working tree (after an exact "
                 "AST canonicalisation, jv/canon.py); joserfc is never imported or executed by a check. Exit 0 held (possibly with "
                 "KNOWN-FINDING lines), 1 VIOLATION, 2 ANALYSIS-ERROR (tool failure / vanished anchor / instance count below the "
                 "hand-confirmed minimum). The thorough tier adds informational explorations that never change the exit code: typed-vs-CHA "
                 "call-graph comparison, the property's self-test variants and a seeded sample of behaviour-preserving rewrites, all on "
                 "scratch copies under $TMPDIR. Tested against 80 independently seeded changes (seeded/), see DESIGN.md section 11.",
        "not_applicable": na,
    }
    with open(os.path.join(HERE, "MANIFEST.json"), "w") as fh:
        json.dump(man, fh, indent=1)
    print(f"MANIFEST.json: {len(checks)} checks, {len(na)} not_applicable")


NA: dict = {}


if __name__ == "__main__":
    main()
